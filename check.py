#!/venv/bin/python
"""CLI of the verification machinery (see DESIGN.md).

  check.py <Cxx> [--tier quick|thorough] [--seed N] [--runs N] [--wall S] [--workers N]
  check.py --replay <file>
  check.py selftest-determinism [Cxx ...]
Exit: 0 property held on everything explored (KNOWN-FINDING lines allowed); 1 with a line
"VIOLATION property=<id> replay=<path>" per unlisted violation class; 2 HARNESS-ERROR.
"""
import argparse
import json
import os
import sys

HERE = os.path.dirname(os.path.abspath(__file__))
sys.path.insert(0, HERE)

# one fixed hash seed for the harness itself (the hash seed of the *system under test* is a
# simulated fault applied to child interpreters, see C02)
if os.environ.get('PYTHONHASHSEED') is None:
    os.environ['PYTHONHASHSEED'] = '0'
    os.execv(sys.executable, [sys.executable] + sys.argv)

ALL = ['C01', 'C02', 'C03', 'C04', 'C05', 'C06', 'C08', 'C09', 'C10', 'C11', 'C12', 'C13', 'C14', 'C15', 'C17', 'C19', 'C20']


def main():
    import contextlib
    import io

    with contextlib.redirect_stderr(io.StringIO()):
        from gvsim import bootstrap, kernel

        try:
            bootstrap.boot()
        except bootstrap.HarnessError as e:
            print('HARNESS-ERROR', e)
            return 2
    argv = sys.argv[1:]
    if argv and argv[0] == '--replay':
        return kernel.replay(argv[1])
    if argv and argv[0] == '_digest':
        prop, seed, tier, n = argv[1], int(argv[2]), argv[3], int(argv[4])
        print(json.dumps(kernel.digest_runs(prop, seed, tier, list(range(n)))))
        return 0
    if argv and argv[0] == '_c02child':
        record = json.loads(sys.stdin.read())
        kernel.load('C02')
        from gvsim.props import c02

        print(json.dumps(c02.histories_for_child(record)))
        return 0
    if argv and argv[0] == 'selftest-workers':
        # the same batch under different worker counts / chunk interleavings must execute identical runs
        import subprocess
        import tempfile

        props = argv[1:] or ALL
        bad = 0
        for p in props:
            ds = []
            for w in ('3', '16'):
                out = tempfile.mkdtemp(prefix='gvwk.')
                env = dict(os.environ, VERIF_OUT=out, VERIF_WORKERS=w)
                r = subprocess.run([sys.executable, os.path.join(HERE, 'check.py'), p, '--runs', '160', '--seed', '4242'], capture_output=True, text=True, env=env)
                line = [l for l in r.stdout.splitlines() if 'runs_digest=' in l]
                ds.append(line[-1].split('runs_digest=')[1].strip() if line else 'none:' + r.stdout[-200:])
                import shutil

                shutil.rmtree(out, ignore_errors=True)
            ok = ds[0] == ds[1] and not ds[0].startswith('none')
            bad += 0 if ok else 1
            print(f'workers {p}: {"OK" if ok else "DIVERGED"} {ds}', flush=True)
        return 2 if bad else 0
    if argv and argv[0] == 'selftest-determinism':
        props = argv[1:] or [p for p in ALL if os.path.exists(os.path.join(HERE, 'gvsim', 'props', p.lower() + '.py'))]
        return kernel.selftest_determinism(props)
    ap = argparse.ArgumentParser()
    ap.add_argument('prop')
    ap.add_argument('--tier', default=os.environ.get('VERIF_TIER', 'quick'), choices=['quick', 'thorough'])
    ap.add_argument('--seed', type=int, default=None)
    ap.add_argument('--runs', type=int, default=None)
    ap.add_argument('--wall', type=float, default=None)
    ap.add_argument('--workers', type=int, default=None)
    a = ap.parse_args(argv)
    try:
        return kernel.run_check(a.prop.upper(), a.tier, seed=a.seed, runs=a.runs, wall=a.wall, workers=a.workers)
    except bootstrap.HarnessError as e:
        print('HARNESS-ERROR', e)
        return 2
    except Exception:  # noqa: BLE001
        import traceback

        print('HARNESS-ERROR', traceback.format_exc()[-3000:])
        return 2


if __name__ == '__main__':
    sys.exit(main())
