#!/bin/bash
# usage: tools/mutant.sh <patch-file> <prop> [<prop> ...]   (env RUNS=<n> optional, TESTS=1 to run the repo test-suite too)
# Applies the patch to a scratch worktree of /repo HEAD (outside /repo and /verif), runs the
# quick checks against it (VERIF_REPO), prints exit codes, removes the scratch tree.
set -u
here="$(cd "$(dirname "$0")/.." && pwd)"
patch="$(realpath "$1")"; shift
scratch="$(mktemp -d /tmp/gvmut.XXXXXX)"
out="$(mktemp -d /tmp/gvmutout.XXXXXX)"
git -C /repo worktree add -q --detach "$scratch/repo" HEAD
if ! git -C "$scratch/repo" apply "$patch"; then echo "PATCH-FAILED $patch"; git -C /repo worktree remove --force "$scratch/repo"; rm -rf "$scratch" "$out"; exit 3; fi
if [ "${TESTS:-0}" = "1" ]; then
  (cd "$scratch/repo" && timeout 900 /venv/bin/python -m pytest -q -p no:cacheprovider -x --timeout=900 --continue-on-collection-errors 2>&1 | tail -2)
fi
for prop in "$@"; do
  VERIF_REPO="$scratch/repo" VERIF_OUT="$out" timeout 900 /venv/bin/python "$here/check.py" "$prop" --tier quick ${RUNS:+--runs $RUNS} > "$out/$prop.log" 2>&1
  code=$?
  echo "MUTANT $(basename "$patch") $prop exit=$code $(grep -c '^VIOLATION' "$out/$prop.log") violation line(s); $(grep -m1 'sig=' "$out/$prop.log" | cut -c1-220)"
done
git -C /repo worktree remove --force "$scratch/repo"
rm -rf "$scratch" "$out"
