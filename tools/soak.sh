#!/bin/bash
# usage: tools/soak.sh <tier> <seed-start> <n-seeds> [props...]   - runs checks with several VERIF_SEED values, output redirected
# to a scratch directory (never touches committed evidence); prints one line per (prop, seed).
here="$(cd "$(dirname "$0")/.." && pwd)"
tier="$1"; s0="$2"; n="$3"; shift 3
props="${*:-C01 C02 C03 C04 C05 C06 C08 C09 C10 C11 C12 C13 C14 C15 C17 C19 C20}"
out="$(mktemp -d /tmp/gvsoak.XXXXXX)"
for ((s=s0; s<s0+n; s++)); do
  for p in $props; do
    VERIF_OUT="$out" VERIF_SEED=$s timeout 3000 /venv/bin/python "$here/check.py" $p --tier "$tier" > "$out/$p.$s.log" 2>&1
    code=$?
    echo "SOAK $p seed=$s exit=$code $(tail -1 "$out/$p.$s.log" | cut -c1-200)"
    if [ $code -ne 0 ]; then grep -E "VIOLATION|HARNESS|sig=" "$out/$p.$s.log" | head -8; fi
  done
done
echo "SOAK-OUT $out"
