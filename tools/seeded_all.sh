#!/bin/bash
# runs every stored seeded change (or those whose id starts with $1) against the check of the property it breaks
cd "$(dirname "$0")/.."
for d in seeded/${1:-}*/; do
  id="$(basename "$d")"
  echo "=== $id"
  tools/seeded_eval.sh "$d" "${id%%_*}" 2>&1 | grep -E "DEMO|passed|CHECK|PATCH" | cut -c1-200
done
