#!/bin/bash
# runs every stored seeded change against the check of the property it breaks (and extra props given in meta "also")
cd "$(dirname "$0")/.."
for d in seeded/*/; do
  id="$(basename "$d")"
  echo "=== $id"
  tools/seeded_eval.sh "$d" "${id%%_*}" 2>&1 | grep -E "DEMO|passed|CHECK|PATCH" | cut -c1-200
done
