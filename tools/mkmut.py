#!/usr/bin/env python3
"""mkmut.py <name> <repo-relative file> <old> <new> : writes mutants/<name>.patch (unified diff vs /repo HEAD working tree)"""
import difflib
import os
import sys

name, rel, old, new = sys.argv[1:5]
src = open(os.path.join('/repo', rel)).read()
if src.count(old) != 1:
    sys.exit(f'pattern occurs {src.count(old)} times in {rel}')
dst = src.replace(old, new)
diff = ''.join(difflib.unified_diff(src.splitlines(True), dst.splitlines(True), 'a/' + rel, 'b/' + rel))
out = os.path.join(os.path.dirname(os.path.dirname(os.path.abspath(__file__))), 'mutants', name + '.patch')
open(out, 'w').write(diff)
print('wrote', out)
