#!/bin/bash
# runs every hand-written mutant against the check named by its file-name prefix (cNN_...)
cd "$(dirname "$0")/.."
for m in mutants/*.patch; do
  b="$(basename "$m")"; p="$(echo "${b%%_*}" | tr a-z A-Z)"
  RUNS="${RUNS:-}" tools/mutant.sh "$m" "$p" 2>&1 | cut -c1-200
done
