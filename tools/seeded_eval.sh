#!/bin/bash
# usage: tools/seeded_eval.sh <dir with patch.diff + demo.py> <prop> [<more props>...]
# Confirms a seeded change in a scratch worktree of /repo HEAD (outside /repo and /verif):
#   demo passes on the clean tree, patch applies, test-suite keeps its 1017 passes, demo fails with the change;
# then runs the quick checks against the changed tree.  Removes the scratch worktree afterwards.
set -u
here="$(cd "$(dirname "$0")/.." && pwd)"
dir="$(realpath "$1")"; shift
scratch="$(mktemp -d /tmp/gvseed.XXXXXX)"; out="$(mktemp -d /tmp/gvseedout.XXXXXX)"
git -C /repo worktree add -q --detach "$scratch/repo" HEAD
REPO_UNDER_TEST="$scratch/repo" timeout 600 /venv/bin/python "$dir/demo.py" > "$out/demo_clean.log" 2>&1; echo "DEMO clean exit=$?"
if ! git -C "$scratch/repo" apply "$dir/patch.diff"; then echo "PATCH-FAILED"; git -C /repo worktree remove --force "$scratch/repo"; rm -rf "$scratch" "$out"; exit 3; fi
(cd "$scratch/repo" && timeout 900 /venv/bin/python -m pytest -q -p no:cacheprovider --timeout=900 --continue-on-collection-errors 2>&1 | tail -1)
REPO_UNDER_TEST="$scratch/repo" timeout 600 /venv/bin/python "$dir/demo.py" > "$out/demo_patched.log" 2>&1; echo "DEMO patched exit=$? $(tail -2 "$out/demo_patched.log" | tr '\n' ' ' | cut -c1-300)"
for prop in "$@"; do
  VERIF_REPO="$scratch/repo" VERIF_OUT="$out" timeout 1200 /venv/bin/python "$here/check.py" "$prop" --tier quick ${RUNS:+--runs $RUNS} > "$out/$prop.log" 2>&1
  code=$?
  echo "CHECK $prop exit=$code $(grep -c '^VIOLATION' "$out/$prop.log") violation line(s); $(grep -m1 'sig=' "$out/$prop.log" | cut -c1-260)"
  if [ $code -eq 2 ]; then grep -m3 HARNESS "$out/$prop.log" | cut -c1-600; fi
done
git -C /repo worktree remove --force "$scratch/repo"
rm -rf "$scratch" "$out"
