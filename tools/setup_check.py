#!/venv/bin/python
"""MANIFEST.setup_cmd: nothing to build (pure python); verify the pieces the checks need."""
import contextlib
import io
import os
import sys

sys.path.insert(0, os.path.dirname(os.path.dirname(os.path.abspath(__file__))))

with contextlib.redirect_stderr(io.StringIO()):
    from gvsim import bootstrap

    bootstrap.boot()
    from gvsim.scripted_rng import differential_selftest

    n = differential_selftest()
os.makedirs(os.path.join(bootstrap.VERIF, 'evidence'), exist_ok=True)
os.makedirs(os.path.join(bootstrap.VERIF, 'replays'), exist_ok=True)
print('setup ok:', bootstrap.YAML_PARSER, 'repo', bootstrap.REPO, 'scripted-rng probes', n)
