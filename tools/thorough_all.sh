#!/bin/bash
# usage: tools/thorough_all.sh [workers] [props...]  - the thorough tier of every check at the default seed, output redirected to a
# scratch directory (committed evidence untouched), niced so that it can run next to other work; one line per check.
here="$(cd "$(dirname "$0")/.." && pwd)"
workers="${1:-16}"; shift
props="${*:-C14 C02 C20 C15 C04 C19 C17 C05 C06 C10 C11 C12 C08 C09 C13 C01 C03}"
out="$(mktemp -d /tmp/gvthorough.XXXXXX)"
for p in $props; do
  VERIF_OUT="$out" nice -n 10 timeout 4000 /venv/bin/python "$here/check.py" $p --tier thorough --workers "$workers" > "$out/$p.log" 2>&1
  code=$?
  echo "THOROUGH $p exit=$code $(tail -1 "$out/$p.log" | cut -c1-220)"
  if [ $code -ne 0 ]; then grep -E "VIOLATION|HARNESS|sig=" "$out/$p.log" | head -8; fi
done
echo "THOROUGH-OUT $out"
