#!/usr/bin/env python3
"""builds the sub-agent prompts of one seeded round:  tools/mk_seed_prompts.py <round> <hint file>
(worktrees /tmp/seedwt<round>/<Cxx>, deliverables /tmp/seeded_out<round>/<Cxx>; the prompt holds only the property text,
the environment quirks, and one-line descriptions of the earlier changes that must not be repeated)"""
import glob
import json
import os
import sys

VERIF = os.path.dirname(os.path.dirname(os.path.abspath(__file__)))
rnd, hint_file = sys.argv[1], sys.argv[2]
hint = open(hint_file).read().strip()
tpl = open(os.path.join(VERIF, 'tools', 'seed_prompt_template.txt')).read()
man = json.load(open(os.path.join(VERIF, 'MANIFEST.json')))
claimed = sorted({c['property_id'] for c in man['checks']})
props = {json.loads(l)['id']: json.loads(l) for l in open(os.path.join(VERIF, 'properties.jsonl'))}
out = f'/tmp/seeded_out{rnd}'
os.makedirs(out, exist_ok=True)
for pid in claimed:
    p = props[pid]
    text = f"{pid} - {p['title']}\n\nSTATEMENT: {p['statement']}\n\nQUANTIFIED OVER: {p['quantifier']['text']}\n"
    earlier = []
    for d in sorted(glob.glob(os.path.join(VERIF, 'seeded', pid + '*'))):
        earlier.append(json.load(open(os.path.join(d, 'meta.json')))['change'])
    avoid = ('IMPORTANT - be different from earlier work. ' + str(len(earlier)) + ' previous contributors already submitted these changes for the same property: '
             + ' '.join(f'({i + 1}) "{c}";' for i, c in enumerate(earlier))
             + ' Yours must differ from ALL of them in mechanism AND location (a different function; ideally a different file). ' + hint)
    s = tpl.replace('/tmp/seedwt/', f'/tmp/seedwt{rnd}/').replace('/tmp/seeded_out/', f'/tmp/seeded_out{rnd}/')
    s = s.replace('__PROPERTY__', text + '\n-----\n\n\n' + avoid + '\n').replace('__ID__', pid)
    s = s.replace('leave the worktree CLEAN (git -C', 'leave the worktree CLEAN (never use `git stash`: the stash is shared between worktrees; never run anything against /repo; use git -C')
    open(f'{out}/{pid}.prompt.txt', 'w').write(s)
    os.makedirs(f'{out}/{pid}', exist_ok=True)
print(len(claimed), 'prompts in', out)
