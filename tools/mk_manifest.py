#!/usr/bin/env python3
"""Regenerates /verif/MANIFEST.json from the table below (kept in one place on purpose)."""
import json
import os

HERE = os.path.dirname(os.path.dirname(os.path.abspath(__file__)))

LEVEL_TEXT = ('seeded deterministic simulation: many short, diverse simulated runs of the real code under a seeded '
              'schedule of operations and faults, checked operation by operation against a small reference model and '
              'by invariants over the recorded history; a clean batch is evidence, not proof')

CHECKS = {
    'C01': dict(engine='sim', design='5/C01', technique='deterministic simulation with fault injection: seeded op schedules over random compositions and member worlds, rejected actions and membership probes injected mid-history, totality / closure / independent membership predicates checked per operation',
                note='trusted: the independent membership predicates and descriptor reader; state membership is colour-blind as the statement lists; components are only composed with worlds keeping their documented preconditions'),
    'C10': dict(engine='sim', design='5/C10', technique='deterministic simulation: seeded op schedules with door/key/box scenes planted in front of the agent, per-component refinement of door/box cells and held item against a reference model, seam checks between step input / components / result, caller-deepcopy + in-place-step fault, history monitor that no door is open without a documented actuation',
                note='trusted: reference model and descriptor reader; raising steps are C01\'s'),
    'C12': dict(engine='sim', design='5/C12', technique='deterministic simulation: seeded op schedules; every reward/termination component, composite and the step\'s (reward, flag) compared with the documented formula on (state, action, returned next state), plus direct component calls on arbitrary triples asked twice',
                note='trusted: documented formulas in gvsim/model.py; floats compared with tolerance 1e-9; agent-on-Wall states excluded from the bump oracle; memory rewards judged on single-beacon-colour states'),
    'C02': dict(engine='sim', design='5/C02', technique='deterministic simulation with fault injection: seeded interleaving of several live environments (twins included) with an adversary that reseeds/draws/clears every process-global source; each client compared with its solo re-execution (debug flipped), a re-seeded used environment compared with a fresh one, global generators compared around every client op (tripwire), and restart in fresh interpreters under other PYTHONHASHSEED values (reference: a fresh interpreter with a fixed hash seed); histories include functional roll-outs, numeric representations and the sampling helpers',
                note='trusted: history digests via the descriptor reader; YAML construction draws from the library generator before a seed exists and is not judged; interleaving granularity is one public API call'),
    'C03': dict(engine='sim', design='5/C03', technique='deterministic simulation with fault injection: argument digests around every functional call, identity-graph disjointness of input and next state, caller-mutation faults on inputs/outputs, cache clearing / eviction pressure / foreign-client calls between a question and its repeat (question bank), history-free reference for memoised rewards, copies (fast_copy, deepcopy, rebuilt) must equal and hash alike after arbitrary hashing history',
                note='trusted: descriptor reader and identity-graph walker; observation cells aliasing state cells and sharing of attribute-less objects are not judged; cache objects are never mutated by the simulated caller'),
    'C04': dict(engine='sim', design='5/C04', technique='deterministic simulation with fault injection: refinement of the stateful environment against a twin used only through the functional interface (M-env), generator lock-step after every op, arbitrary read patterns, resets mid-episode, rejected actions and global-state noise injected between step and read',
                note='trusted: the twin is the same component code threaded functionally; representation oracle objects are built separately from the ones inside OuterEnv'),
    'C11': dict(engine='stochastic', design='5/C11', technique='deterministic simulation owning every random outcome: ScriptedRng (uniform / extreme / forced outcomes) and real seeded generators; outcome forcing re-executes a step for every resolution of its random choices; relational post-conditions with a search over obstacle turn orders',
                note='trusted: ScriptedRng (differentially tested against numpy Generator at setup), the turn-order search (bounded to 6 obstacles, larger = undecided)'),
    'C13': dict(engine='resetsim', design='5/C13', technique='deterministic simulation owning every random outcome of the reset functions: real seeded generators and ScriptedRng with uniform / extreme outcomes over valid and invalid parameter regions; each call must raise ValueError or return a state passing an independent well-formedness validator',
                note='trusted: the validator in gvsim/resets.py and ScriptedRng (differentially tested); non-positive shape/layout entries are outside the domain; crossing only with argument-less object types'),
    'C14': dict(engine='resetsim', design='5/C14', technique='deterministic simulation, bounded liveness: a planner client plans on the reference model (random outcomes resolved existentially) and executes the plan on the real step function with a ScriptedRng replaying the chosen outcomes; exhaustive search over the real step function decides when no plan is found - for families with random dynamics (small instances) under every outcome of every draw, the outcome tree being discovered from the draws the real code makes',
                note='trusted: family compositions mirror the shipped configurations; planner failures on larger stochastic instances and searches beyond the budget are undecided (counted, never reported); two known findings (memory_rooms; dynamic_obstacles 4x5 with 3 obstacles) are listed in KNOWN_FINDINGS.txt'),
    'C20': dict(engine='gymsim', design='5/C20', technique='deterministic simulation: gym-level clients (direct, gym.make(id).unwrapped, registry factory; with/without GymStateWrapper) refined op by op against a functionally threaded twin and oracle-built representations; representation switches injected at arbitrary points; adversary noise on global state; a faithfulness oracle independent of the representation code (codes are an injective function of type/status/colour, agent marker and agent vector follow the pose); varied builds (action lists, shapes, view anchors) and index types',
                note='trusted: the twin inner environment and separately constructed representation objects; indices outside range(n) and GymEnvironment.seed are not exercised'),
    'C05': dict(engine='viewsim', design='5/C05', technique='deterministic simulation (weak fit: pure function of state and view): a walking client reaches poses on edges/corners in all headings through the real move/turn functions; every observation read is compared cell by cell with the reference view geometry; the generator seam of the stochastic function is owned (ScriptedRng uniform/extreme and real seeds)',
                note='weak fit for this technique (DESIGN.md section 0): the simulator contributes pose histories, the generator seam and the per-read oracle; trusted: view geometry of gvsim/model.py (validated against fully_transparent)'),
    'C06': dict(engine='viewsim', design='5/C06', technique='deterministic simulation with fault injection (weak fit): corrupt_hidden faults replace hidden / out-of-view world cells in a twin state at the moment of a read and the observation must not change; monotone probes; own-cell and chain condition on the bare visibility masks and on the mask the observation function itself applied; stochastic mask bounded by the deterministic one for scripted extreme and seeded draws',
                note='weak fit (DESIGN.md section 0); the agent cell counts as a chain link whatever it holds; non-interference judged for the deterministic functions only'),
    'C15': dict(engine='sim', design='5/C15', technique='deterministic simulation: seeded histories (corner walks, pick/drop/swap, door and box opening) over declared spaces with member worlds using every declared type/status/colour and over shipped configurations; after every step all three representations of state and observation are checked key by key against the declared space and the gym space; a GymEnvironment around the same inner environment has its representations switched and what it returns is checked against the space it advertises at that moment',
                note='trusted: own shape/dtype/bounds check; member worlds use only declared types and colours; views have their origin inside'),
    'C17': dict(engine='configsim', design='5/C17', technique='deterministic simulation with fault injection on the configuration input: every shipped file built by the real factory and by an independent interpreter of the data (M-config) with digest-equal seeded histories; data-level corruption and text-level corruption (truncation, line loss / duplication, byte flips) served through an in-memory file behind open; classified corruptions must be rejected with SchemaError/ValueError, buildable ones must behave as described',
                note='trusted: M-config (own reading of names, reserved keys and signatures); unparsable text may raise anything; damage outside the statement\'s list is undecided (counted)'),
    'C19': dict(engine='raysim', design='5/C19', technique='deterministic simulation with cache faults: seeded query histories over compute_ray / compute_rays / compute_rays_fancy and cached variants (offset areas included) interleaved with visibility calls, cache clearing and foreign queries between a query and its repeat; per-ray path invariants, fan coverage, repeat equality, cached-vs-recomputed equality',
                note='the geometric clauses are pure; the simulator contributes query history and cache faults'),
    'C08': dict(engine='sim', design='5/C08', technique='deterministic simulation: seeded op schedules over free-form worlds and shipped configurations, per-component and per-step refinement of the agent pose against a reference model, history invariant',
                note='trusted: the reference model (gvsim/model.py) and the descriptor reader (gvsim/lib.py); teleport destinations are judged by C11, raising steps by C01'),
    'C09': dict(engine='sim', design='5/C09', technique='deterministic simulation: seeded op schedules, per-component object-inventory conservation and pick-and-drop case analysis against a reference model',
                note='trusted: reference model and descriptor reader; door status changes are masked (C10), raising steps are C01\'s'),
}

NOT_APPLICABLE = [
    dict(property_id='C07', reason='pure relation between two input values of a deterministic function (rotation invariance); no history, schedule, generator, shared state or fault in statement or quantifier, so deterministic simulation has nothing to own - see DESIGN.md section 6 (heading-specific slips of the slice/rotate pipeline are still caught by C05\'s per-heading ground truth)'),
    dict(property_id='C16', reason='injectivity over pairs of inputs and claims about the whole image of an encoding over a finite space; deciding them needs enumeration of the space, which is not this technique - see DESIGN.md section 6'),
    dict(property_id='C18', reason='algebraic laws over unbounded integers and operand triples; pure algebra with no schedule, generator, state or fault for a simulator to act on - see DESIGN.md section 6'),
]

ENGINES = {
    'configsim': ('gvsim/props/c17.py', 'configuration runner: real YAML factory vs M-config, corruption faults on data and text'),
    'viewsim': ('gvsim/views.py', 'walking client + real observation / visibility functions against the reference view geometry; hidden-state corruption faults'),
    'raysim': ('gvsim/props/c19.py', 'ray query client + visibility client + cache adversary'),
    'resetsim': ('gvsim/resets.py', 'case runner for the eight built-in reset functions with owned generators (real seeded / ScriptedRng), validator, model planner and real-step search'),
    'gymsim': ('gvsim/props/c20.py', 'gym-layer runner: real GymEnvironment / GymStateWrapper / OuterEnv over YAML-built GridWorlds, next to a functionally threaded twin'),
    'stochastic': ('gvsim/props/c11.py', 'scripted-generator runner: real GridWorld / transition functions with a ScriptedRng or a real seeded Generator, outcome forcing'),
    'sim': ('gvsim/sim.py', 'in-process simulator: clients = real environment stacks, adversary on process-global state, seeded scheduler at operation granularity, monitors against reference models'),
}


def main():
    checks = []
    for pid in sorted(CHECKS):
        c = CHECKS[pid]
        checks.append({
            'property_id': pid,
            'quick_cmd': f'/venv/bin/python /verif/check.py {pid} --tier quick',
            'thorough_cmd': f'/venv/bin/python /verif/check.py {pid} --tier thorough',
            'evidence_file': f'/verif/evidence/{pid}.json',
            'replay_cmd_template': '/venv/bin/python /verif/check.py --replay {path}',
            'engine': c['engine'],
            'level_claimed': {'category': 'exploration', 'text': LEVEL_TEXT, 'design_ref': 'DESIGN.md section ' + c['design']},
            'level_note': c['note'],
            'technique': c['technique'],
        })
    claimed = set(CHECKS)
    na = list(NOT_APPLICABLE)
    allp = [json.loads(l)['id'] for l in open(os.path.join(HERE, 'properties.jsonl'))]
    for pid in allp:
        if pid not in claimed and pid not in {n['property_id'] for n in na}:
            na.append(dict(property_id=pid, reason='check not built yet in this revision (planned: see DESIGN.md section 5); not claimed until its check exists and is sound'))
    manifest = {
        'version': 1,
        'setup_cmd': '/venv/bin/python /verif/tools/setup_check.py',
        'hooks': {
            'guard': 'GYM_GRIDVERSE_VERIF',
            'enable': 'no hook exists in /repo: every seam the simulator needs is already a public function, keyword argument, injected component, module attribute or environment variable (DESIGN.md section 2); checks export GYM_GRIDVERSE_VERIF=1 for uniformity',
            'baseline_off_cmd': 'cd /repo && env -u GYM_GRIDVERSE_VERIF /venv/bin/python -m pytest -ra -q -p no:cacheprovider --timeout=900 --continue-on-collection-errors',
            'source_commits': [],
            'add_only': True,
        },
        'engines': [
            {'name': n, 'path': p, 'serves_properties': sorted(q for q, c in CHECKS.items() if c['engine'] == n), 'kind_free_text': t}
            for n, (p, t) in sorted(ENGINES.items())
        ],
        'checks': checks,
        'not_applicable': sorted(na, key=lambda n: n['property_id']),
        'notes': 'All checks: exit 0 = held on everything explored (KNOWN-FINDING lines possible), exit 1 + VIOLATION line = unlisted violation with minimised replay file, exit 2 = HARNESS-ERROR. VERIF_SEED selects the run family; VERIF_REPO (default /repo) selects the tree; VERIF_OUT redirects evidence and replay files. Known findings and fixed defects: /verif/KNOWN_FINDINGS.txt (committed, never written at run time; two known findings, both C14, with replay files under /verif/replays). Hand-written mutants: /verif/mutants; independently written breaking changes: /verif/seeded/<id>/ (patch.diff, demo.py, notes.md, meta.json); tools/seeded_all.sh and tools/mutants_all.sh re-run them against scratch worktrees. Self-tests: check.py selftest-determinism, check.py selftest-workers.',
    }
    with open(os.path.join(HERE, 'MANIFEST.json'), 'w') as f:
        json.dump(manifest, f, indent=1)
    print('checks', len(checks), 'not_applicable', len(na))


if __name__ == '__main__':
    main()
