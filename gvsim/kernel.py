"""Simulation kernel: seeded streams, run contexts, worker pool, minimisation, replay,
known-findings matching, evidence.

A *property module* (gvsim/props/cXX.py) provides
    PROP, TITLE, TIERS = {'quick': {'runs': n, 'wall': s}, 'thorough': {...}}, RULE, REAL, STUB
    generate(seed, run, tier) -> record            (pure: touches no library state)
    execute(record, ctx) -> None                   (drives the real code; reports into ctx)
    simplify(record) -> iterable of records        (optional; structural shrinking candidates)
A record is JSON data with at least {'property', 'seed', 'run', 'tier', 'ops': [...]}.
"""
import collections
import concurrent.futures as cf
import faulthandler
import hashlib
import importlib
import json
import multiprocessing as mp
import os
import random
import signal
import subprocess
import sys
import time
import traceback

from gvsim import bootstrap
from gvsim.bootstrap import HarnessError

VERIF = bootstrap.VERIF
OUT = os.environ.get('VERIF_OUT', VERIF)  # where evidence/ and replays/ are written (mutant runs redirect it)
DEFAULT_SEED = {'quick': 20260926, 'thorough': 20260927}
MAX_MINIMISED = 5
RUN_ALARM_S = 120


# ------------------------------------------------------------------ seeded streams


def derive(*parts):
    h = hashlib.sha256('/'.join(str(p) for p in parts).encode()).digest()
    return int.from_bytes(h[:8], 'big')


def stream(seed, prop, run, name):
    """independent PRNG stream for one purpose of one run"""
    return random.Random(derive(seed, prop, run, name))


# ------------------------------------------------------------------ run context


class Ctx:
    """accumulators of one run"""

    def __init__(self, record):
        self.record = record
        self.violations = []
        self.stats = collections.Counter()
        self.ticks = 0
        self._h = hashlib.sha256()
        self.states = set()
        self.distinct = set()
        self.undecided = collections.Counter()
        self.sample = None
        self.fired = 0

    # event log (digest only; logging never draws and never reads a clock)
    def log(self, *items):
        self._h.update(repr(items).encode())
        self._h.update(b'\n')

    def trace_digest(self):
        return self._h.hexdigest()[:16]

    def state(self, key):
        self.states.add(hash_key(key))

    def fault(self, kind, n=1):
        self.stats['fault:' + kind] += n
        self.fired += n

    def probe(self, name, n=1):
        self.stats['probe:' + name] += n

    def count(self, name, n=1):
        self.stats[name] += n

    def violate(self, monitor, code, site='-', cause='-', op_index=-1, detail=''):
        v = {
            'property': self.record['property'],
            'monitor': monitor,
            'code': code,
            'site': str(site).replace(' ', '_'),
            'cause': str(cause).replace(' ', '_'),
            'op_index': op_index,
            'detail': str(detail)[:600],
        }
        self.violations.append(v)
        self.log('VIOLATION', monitor, code, site, cause, op_index)
        return v


def hash_key(key):
    return int.from_bytes(hashlib.sha256(repr(key).encode()).digest()[:7], 'big')


def vclass(v):
    """violation class = full signature (monitor, code, site, cause): minimisation preserves it, and a
    listed known finding can never mask a violation with another cause at the same site"""
    return (v['monitor'], v['code'], v['site'], v['cause'])


def vsig(v):
    return f"{v['monitor']}/{v['code']}/{v['site']}/{v['cause']}"


# ------------------------------------------------------------------ global state


def prepare_globals(record):
    """put every process-global the library owns into a state derived from the run"""
    import numpy as np

    from gym_gridverse import debugging, rng
    from gym_gridverse.envs import reward_functions
    from gym_gridverse.utils import raytracing

    s = derive(record['seed'], record['property'], record['run'], 'globals')
    rng.reset_gv_rng(s % (2**32))
    np.random.seed((s >> 8) % (2**32))
    random.seed(s >> 16)
    debugging.reset_gv_debug(bool(record.get('debug', True)))
    from gvsim import lib

    lib.set_alias(record.get('alias_objects', False))
    lib.set_from_shape(record.get('grid_from_shape', False))
    lib.set_door_assign(record.get('door_status_assigned', False))
    lib.set_held_assign(record.get('held_item_assigned', False))
    lib.set_numpy_coords(record.get('numpy_coordinates', False))
    if not record.get('keep_caches', False):
        clear_caches()


def clear_caches():
    """clear every memo cache the library exposes (robust to a cache being refactored away)"""
    from gym_gridverse.envs import reward_functions
    from gym_gridverse.utils import raytracing

    n = 0
    for owner, name in ((reward_functions, 'dijkstra'), (raytracing, 'cached_compute_rays'), (raytracing, 'cached_compute_rays_fancy')):
        f = getattr(getattr(owner, name, None), 'cache_clear', None)
        if f is not None:
            f()
            n += 1
    return n


def load(prop):
    bootstrap.boot()
    import coin_env  # noqa: F401  fixed import order => identical registries in every worker

    return importlib.import_module(f'gvsim.props.{prop.lower()}')


class RunTimeout(Exception):
    pass


def _alarm(signum, frame):
    raise RunTimeout()


def execute(mod, record):
    """run one record; returns its Ctx.  Exceptions of the harness propagate."""
    ctx = Ctx(record)
    prepare_globals(record)
    ctx.log('SEED', record['seed'], record['run'])
    old = signal.signal(signal.SIGALRM, _alarm)
    signal.alarm(RUN_ALARM_S)
    try:
        mod.execute(record, ctx)
    finally:
        signal.alarm(0)
        signal.signal(signal.SIGALRM, old)
    return ctx


# ------------------------------------------------------------------ workers


def _in_fork(fn, *args):
    """run fn(*args) in a forked child of this (pristine) process; returns its pickled result"""
    import pickle

    rfd, wfd = os.pipe()
    pid = os.fork()
    if pid == 0:
        code = 0
        try:
            os.close(rfd)
            try:
                out = fn(*args)
            except Exception:  # noqa: BLE001
                out = {'error': traceback.format_exc()}
            with os.fdopen(wfd, 'wb') as f:
                pickle.dump(out, f, protocol=pickle.HIGHEST_PROTOCOL)
        except BaseException:  # noqa: BLE001
            code = 1
        finally:
            os._exit(code)
    os.close(wfd)
    with os.fdopen(rfd, 'rb') as f:
        data = f.read()
    _, status = os.waitpid(pid, 0)
    if not data:
        return {'error': f'forked child produced no result (status {status})'}
    return pickle.loads(data)


def _chunk(prop, seed, tier, indices):
    """every chunk runs in a fresh fork of the worker, which itself never executes a run: the
    system under test therefore starts each chunk from pristine process state, and a violation in
    run j of a chunk is a pure function of the chunk's runs up to j (the `prelude`)."""
    return _in_fork(_chunk_body, prop, seed, tier, indices)


def _chunk_body(prop, seed, tier, indices):
    faulthandler.dump_traceback_later(900, exit=True)
    try:
        mod = load(prop)
        out = {
            'runs': 0,
            'ticks': 0,
            'stats': collections.Counter(),
            'undecided': collections.Counter(),
            'states': set(),
            'distinct': set(),
            'scheds': set(),
            'viol': [],
            'nviol': 0,
            'samples': [],
            'traces': [],
            'error': None,
        }
        seen = set()
        done = []
        for i in indices:
            record = mod.generate(seed, i, tier)
            ctx = execute(mod, record)
            out['runs'] += 1
            out['ticks'] += ctx.ticks
            out['stats'].update(ctx.stats)
            out['undecided'].update(ctx.undecided)
            out['states'] |= ctx.states
            out['distinct'] |= ctx.distinct
            out['scheds'].add(hash_key(tuple(_opkind(o) for o in record.get('ops', []))))
            out['nviol'] += len(ctx.violations)
            out['traces'].append((i, ctx.trace_digest()))
            for v in ctx.violations:
                if vclass(v) not in seen:
                    seen.add(vclass(v))
                    out['viol'].append((record, v, list(done)))
            if ctx.sample is not None and len(out['samples']) < 1:
                out['samples'].append(ctx.sample)
            done.append(i)
        return out
    except Exception:  # noqa: BLE001
        return {'error': traceback.format_exc()}
    finally:
        faulthandler.cancel_dump_traceback_later()


def _opkind(o):
    if isinstance(o, (list, tuple)):
        return tuple(x for x in o[:2] if isinstance(x, str))
    if isinstance(o, dict):
        return (o.get('actor', ''), o.get('op', ''))
    return str(o)


# ------------------------------------------------------------------ minimisation


def _reproduce_body(prop, record, cls, prelude):
    mod = load(prop)
    for (sd, i, tier) in prelude:
        try:
            execute(mod, mod.generate(sd, i, tier))
        except RunTimeout:
            pass
    try:
        ctx = execute(mod, record)
    except RunTimeout:
        return None
    for v in ctx.violations:
        if vclass(v) == cls:
            return v
    return None


def reproduces(mod, record, cls, prelude=()):
    """execute (prelude runs, then) the record from pristine process state, in a forked child"""
    out = _in_fork(_reproduce_body, record['property'], record, cls, list(prelude))
    if isinstance(out, dict) and out.get('error') and 'monitor' not in out:
        raise HarnessError(out['error'])
    return out


def ddmin(items, test, alive):
    """delta debugging: smallest sub-list of items for which test(sub) holds (test(items) assumed)"""
    n = 2
    while len(items) >= 2 and alive():
        size = max(1, len(items) // n)
        reduced = False
        for start in range(0, len(items), size):
            cand = items[:start] + items[start + size:]
            if test(cand):
                items = cand
                n = max(n - 1, 2)
                reduced = True
                break
        if not reduced:
            if size == 1:
                break
            n = min(len(items), n * 2)
    if len(items) == 1 and alive() and test([]):
        items = []
    return items


def minimise(mod, record, v, prelude_idx=(), budget_s=120, max_exec=700):
    """shrink (prelude runs, ops, structure) while the same violation class recurs from pristine
    process state.  Returns (record, violation, prelude, executions) or None if not reproducible."""
    cls = vclass(v)
    t0 = time.time()
    n_exec = [0]
    alive = lambda: time.time() - t0 < budget_s and n_exec[0] < max_exec  # noqa: E731
    best = [record, v]
    full_prelude = [(record['seed'], i, record['tier']) for i in prelude_idx]

    def attempt(rec, prelude):
        n_exec[0] += 1
        return reproduces(mod, rec, cls, prelude)

    prelude = []
    v0 = attempt(record, [])
    if v0 is None:
        if not full_prelude:
            return None
        v0 = attempt(record, full_prelude)
        if v0 is None:
            return None
        prelude = ddmin(full_prelude, lambda p: alive() and attempt(record, p) is not None, alive)
    best[1] = v0

    def test(rec):
        if not alive():
            return False
        vv = attempt(rec, prelude)
        if vv is not None:
            best[0], best[1] = rec, vv
            return True
        return False

    def with_ops(rec, ops):
        r = dict(rec)
        r['ops'] = ops
        return r

    ops = list(best[0].get('ops', []))
    k = best[1].get('op_index', -1)
    if 0 <= k < len(ops) - 1:
        test(with_ops(best[0], ops[: k + 1]))
    ops = list(best[0].get('ops', []))
    if len(ops) >= 2:
        ddmin(ops, lambda cand: bool(cand) and test(with_ops(best[0], cand)), alive)
    simp = getattr(mod, 'simplify', None)
    if simp is not None:
        progress = True
        while progress and alive():
            progress = False
            for cand in simp(best[0]):
                if not alive():
                    break
                if test(cand):
                    progress = True
                    break
    return best[0], best[1], prelude, n_exec[0]


# ------------------------------------------------------------------ known findings


def known_findings():
    path = os.path.join(VERIF, 'KNOWN_FINDINGS.txt')
    known = []
    if os.path.exists(path):
        for line in open(path):
            line = line.strip()
            if not line.startswith('known:'):
                continue
            parts = line.split()
            kv = dict(p.split('=', 1) for p in parts[1:3] if '=' in p)
            known.append((kv.get('property'), kv.get('sig'), ' '.join(parts[3:])))
    return known


def match_known(prop, sig):
    for p, s, text in known_findings():
        if p == prop and s == sig:
            return text
    return None


# ------------------------------------------------------------------ replay


def write_replay(record, v, n_exec, orig_len, prelude=()):
    os.makedirs(os.path.join(OUT, 'replays'), exist_ok=True)
    name = f"{record['property']}-{record['seed']}-{record['run']}-{hashlib.sha256(vsig(v).encode()).hexdigest()[:6]}.json"
    path = os.path.join(OUT, 'replays', name)
    with open(path, 'w') as f:
        json.dump(
            {
                'record': record,
                'prelude': [list(p) for p in prelude],
                'violation': v,
                'sig': vsig(v),
                'minimisation': {'executions': n_exec, 'ops_before': orig_len, 'ops_after': len(record.get('ops', []))},
            },
            f,
            indent=1,
            sort_keys=True,
        )
    return path


def replay(path):
    """re-execute a replay file; exit 1 (and VIOLATION line) iff the same violation class recurs"""
    data = json.load(open(path))
    record, v = data['record'], data['violation']
    mod = load(record['property'])
    for (sd, i, tier) in data.get('prelude', []):
        # earlier runs of the same chunk that put the process into the state the violation needs
        try:
            execute(mod, mod.generate(sd, i, tier))
        except RunTimeout:
            pass
    ctx = execute(mod, record)
    for vv in ctx.violations:
        if vclass(vv) == vclass(v):
            same_op = vv['op_index'] == v['op_index']
            print(f"REPLAY reproduced sig={vsig(vv)} op_index={vv['op_index']} same_op={same_op} detail={vv['detail'][:300]}")
            known = match_known(record['property'], vsig(vv))
            if known is not None:
                print(f"KNOWN-FINDING: property={record['property']} {known}")
                return 0
            print(f"VIOLATION property={record['property']} replay={path}")
            return 1
    print(f"REPLAY not-reproduced property={record['property']} sig={data['sig']}")
    return 0


def confirm_fresh(path, v):
    """replay in a fresh interpreter (different hash seed); True iff reproduced"""
    env = dict(os.environ)
    env['PYTHONHASHSEED'] = '12345'
    p = subprocess.run(
        [sys.executable, os.path.join(VERIF, 'check.py'), '--replay', path],
        capture_output=True,
        text=True,
        env=env,
        timeout=600,
    )
    want = '/'.join(vclass(v))
    for line in p.stdout.splitlines():
        if line.startswith('REPLAY reproduced sig='):
            got = line.split('sig=', 1)[1].split()[0]
            if got == want:
                return True
    sys.stdout.write(p.stdout[-800:] + p.stderr[-1500:])
    return False


# ------------------------------------------------------------------ the check driver


def run_check(prop, tier, seed=None, runs=None, wall=None, workers=None, chunk=None):
    t0 = time.time()
    mod = load(prop)
    cfg = dict(mod.TIERS[tier])
    if runs is not None:
        cfg['runs'] = runs
    if wall is not None:
        cfg['wall'] = wall
    if seed is None:
        seed = int(os.environ.get('VERIF_SEED', DEFAULT_SEED[tier]))
    print(f'VERIF_SEED={seed} property={prop} tier={tier} runs<={cfg["runs"]} wall<={cfg["wall"]}s', flush=True)
    workers = workers or int(os.environ.get('VERIF_WORKERS', min(16, os.cpu_count() or 1)))
    total = cfg['runs']
    chunk = chunk or cfg.get('chunk') or max(1, min(50, total // (workers * 4) or 1))
    indices = list(range(total))
    chunks = [indices[i : i + chunk] for i in range(0, total, chunk)]

    agg = {
        'runs': 0,
        'ticks': 0,
        'stats': collections.Counter(),
        'undecided': collections.Counter(),
        'states': set(),
        'distinct': set(),
        'scheds': set(),
        'viol': [],
        'nviol': 0,
        'samples': [],
        'traces': [],
    }
    truncated = False
    errors = []
    ctxmp = mp.get_context('fork')
    with cf.ProcessPoolExecutor(max_workers=workers, mp_context=ctxmp) as ex:
        pending = set()
        it = iter(chunks)
        exhausted = False

        def submit_more():
            nonlocal exhausted, truncated
            while not exhausted and len(pending) < workers * 2:
                if time.time() - t0 > cfg['wall']:
                    truncated = True
                    exhausted = True
                    break
                try:
                    c = next(it)
                except StopIteration:
                    exhausted = True
                    break
                pending.add(ex.submit(_chunk, prop, seed, tier, c))

        submit_more()
        hard = cfg['wall'] * 2 + 300
        while pending:
            done, _ = cf.wait(pending, timeout=30, return_when=cf.FIRST_COMPLETED)
            if not done and time.time() - t0 > hard:
                for f in pending:
                    f.cancel()
                errors.append('hard wall cap exceeded: workers stalled')
                for p in ex._processes.values():  # noqa: SLF001
                    p.terminate()
                break
            for f in done:
                pending.discard(f)
                try:
                    out = f.result()
                except Exception as e:  # noqa: BLE001
                    errors.append(f'worker died: {e!r}')
                    continue
                if out.get('error'):
                    errors.append(out['error'])
                    continue
                for k in ('runs', 'ticks', 'nviol'):
                    agg[k] += out[k]
                for k in ('stats', 'undecided'):
                    agg[k].update(out[k])
                for k in ('states', 'distinct', 'scheds'):
                    agg[k] |= out[k]
                agg['viol'].extend(out['viol'])
                agg['traces'].extend(out['traces'])
                if len(agg['samples']) < 3:
                    agg['samples'].extend(out['samples'])
            submit_more()

    if errors:
        print('HARNESS-ERROR', errors[0][-3000:], flush=True)
        return 2

    # ---- violations: group by class, minimise, replay in a fresh interpreter, match known
    byclass = collections.OrderedDict()
    for record, v, pre in sorted(agg['viol'], key=lambda rv: (rv[0]['run'], rv[1]['op_index'])):
        byclass.setdefault(vclass(v), (record, v, pre))
    lines, unlisted, known_hits = [], 0, []
    reported = {}
    # classes that are not listed as known findings get the minimisation slots first
    ordered = sorted(byclass.items(), key=lambda kv: match_known(prop, '/'.join(kv[0])) is not None)
    n_known_slots = 0
    for cls, (record, v, pre) in ordered:
        is_known = match_known(prop, '/'.join(cls)) is not None
        if is_known:
            n_known_slots += 1
            if n_known_slots > MAX_MINIMISED:
                continue
        elif unlisted >= MAX_MINIMISED:
            continue
        orig_len = len(record.get('ops', []))
        res = minimise(mod, record, v, pre)
        if res is None:
            print(f'HARNESS-ERROR violation {vsig(v)} of run {record["run"]} does not recur from pristine process state (with its chunk prelude): nondeterminism in harness or system', flush=True)
            return 2
        rec2, v2, prelude, n_exec = res
        path = write_replay(rec2, v2, n_exec, orig_len, prelude)
        ok = confirm_fresh(path, v2)
        if not ok:
            print(f'HARNESS-ERROR replay of {path} did not reproduce {vsig(v2)} in a fresh interpreter', flush=True)
            return 2
        sig = vsig(v2)
        if sig in reported:
            continue
        known = match_known(prop, sig)
        if known is not None:
            reported[sig] = 'known'
            known_hits.append(sig)
            lines.append(f'KNOWN-FINDING: property={prop} {known}')
            try:
                os.remove(path)
            except OSError:
                pass
        else:
            reported[sig] = 'violation'
            unlisted += 1
            lines.append(f'VIOLATION property={prop} replay={path}')
            print(f'  class={cls} sig={sig} detail={v2["detail"][:400]}', flush=True)
    extra_classes = max(0, len(byclass) - len(reported))

    wall_s = time.time() - t0
    evidence = {
        'property_id': prop,
        'tier': tier,
        'seed': seed,
        'level': 'exploration',
        'wall_s': round(wall_s, 2),
        'violations': unlisted,
        'coverage': {
            'evaluations': agg['runs'] if not agg['stats'].get('cases') else int(agg['stats']['cases']),
            'distinct_nontrivial': len(agg['distinct']),
            'rule': mod.RULE,
            'samples': agg['samples'][:3] or ['(no sample recorded)'],
            'simulated_runs': agg['runs'],
            'runs_per_hour': int(agg['runs'] / max(wall_s, 1e-9) * 3600),
            'simulated_time_ticks': agg['ticks'],
            'faults_fired': {k[6:]: n for k, n in sorted(agg['stats'].items()) if k.startswith('fault:')},
            'probes_hit': {k[6:]: n for k, n in sorted(agg['stats'].items()) if k.startswith('probe:')},
            'counters': {k: n for k, n in sorted(agg['stats'].items()) if not k.startswith(('fault:', 'probe:'))},
            'runs_digest': hashlib.sha256(repr(sorted(agg['traces'])).encode()).hexdigest()[:16],
            'distinct_states': len(agg['states']),
            'distinct_schedules': len(agg['scheds']),
            'undecided': dict(sorted(agg['undecided'].items())),
            'reach_gaps': [n for n in getattr(mod, 'REACH', []) if not agg['stats'].get('probe:' + n) and not agg['stats'].get('fault:' + n)],
            'violation_events': agg['nviol'],
            'violation_classes_beyond_minimised': extra_classes,
            'known_findings_hit': known_hits,
            'truncated_by_wall': truncated,
            'workers': workers,
            'real_components': mod.REAL,
            'stub_components': mod.STUB,
            'yaml_parser': bootstrap.YAML_PARSER,
            'repo': bootstrap.REPO,
        },
        'assumptions': getattr(mod, 'ASSUMPTIONS', []),
    }
    os.makedirs(os.path.join(OUT, 'evidence'), exist_ok=True)
    with open(os.path.join(OUT, 'evidence', f'{prop}.json'), 'w') as f:
        json.dump(evidence, f, indent=1, sort_keys=True, default=str)
    for line in lines:
        print(line, flush=True)
    print(
        f'{prop} {tier}: runs={agg["runs"]} ticks={agg["ticks"]} faults={sum(evidence["coverage"]["faults_fired"].values())} '
        f'distinct={len(agg["distinct"])} states={len(agg["states"])} wall={wall_s:.1f}s '
        f'violations={unlisted} known={len(known_hits)} truncated={truncated} runs_digest={evidence["coverage"]["runs_digest"]}'
        + (f' REACH-GAPS={evidence["coverage"]["reach_gaps"]}' if evidence['coverage']['reach_gaps'] else ''),
        flush=True,
    )
    return 1 if unlisted else 0


# ------------------------------------------------------------------ determinism self-test


def digest_runs(prop, seed, tier, indices):
    mod = load(prop)
    out = []
    for i in indices:
        rec = mod.generate(seed, i, tier)
        ctx = execute(mod, rec)
        out.append((i, hashlib.sha256(json.dumps(rec, sort_keys=True).encode()).hexdigest()[:12], ctx.trace_digest(), len(ctx.violations)))
    return out


def selftest_determinism(props, n=24, tier='quick', seed=777):
    """same seed twice in-process, and in fresh interpreters under other hash seeds"""
    bad = 0
    for prop in props:
        idx = list(range(n))
        a = digest_runs(prop, seed, tier, idx)
        b = digest_runs(prop, seed, tier, list(reversed(idx)))
        b = sorted(b)
        res = {'inproc': a == b}
        for hs in ('0', '1', '4242'):
            env = dict(os.environ, PYTHONHASHSEED=hs)
            p = subprocess.run(
                [sys.executable, os.path.join(VERIF, 'check.py'), '_digest', prop, str(seed), tier, str(n)],
                capture_output=True,
                text=True,
                env=env,
                timeout=1800,
            )
            try:
                c = [tuple(x) for x in json.loads(p.stdout.strip().splitlines()[-1])]
            except Exception:  # noqa: BLE001
                c = None
                print(p.stdout[-500:], p.stderr[-1500:])
            res['hash' + hs] = c == a
        ok = all(res.values())
        bad += 0 if ok else 1
        print(f'determinism {prop}: {"OK" if ok else "DIVERGED"} {res}', flush=True)
    return 2 if bad else 0
