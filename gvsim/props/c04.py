"""C04 - the stateful interface mirrors the functional one; observations are never stale
(engine: gvsim.sim, profile `mirror`).  M-env refinement operation by operation."""
import numpy as np

from gvsim import model as M
from gvsim import worlds as W
from gvsim.kernel import stream
from gvsim.lib import action_of, state_key, world_of
from gvsim.props import common
from gvsim.sim import Client, Raised, Sim, sut

PROP = 'C04'
TIERS = {'quick': {'runs': 1600, 'wall': 100}, 'thorough': {'runs': 40000, 'wall': 1500}}
REACH = ['read_before_reset', 'repeated_read', 'step_without_read', 'reset_mid_episode', 'outer_state_read', 'bad_action_outside', 'reseed_gv', 'lookahead_from_live_state_object', 'lookahead_actuates', 'outer_representation_reassigned', 'unseeded_environment_op']  # probes / faults that must fire in every batch (reach gaps are reported in the evidence)
RULE = ('one run = 1-3 clients (shipped configurations and random compositions, stochastic_raytracing included so that '
        'an extra observation computation shows up as generator drift), each paired with a twin environment that is '
        'only ever used through the functional interface (M-env); seeded interleaved op lists with arbitrary patterns '
        'of observation / state reads (0, 1, many) between steps, resets mid-episode, reads before the first reset, '
        'OuterEnv reads, and injected rejected actions and global-state noise; distinct = executed-trace digest; '
        'non-trivial = >= 10 ops, >= 1 fault fired and both a read-after-step and a repeated read occurred')
REAL = common.REAL_SIM + ['gym_gridverse.outer_env.OuterEnv', 'gym_gridverse.representations (make_*_representation, convert)']
STUB = common.STUB_SIM
ASSUMPTIONS = ['the twin is the same code used only through functional_*; generator lock-step is compared after every op']


def generate(seed, run, tier):
    r = stream(seed, PROP, run, 'gen')
    rec = common.base_record(PROP, seed, run, tier)
    rec['debug'] = r.random() < 0.5
    big = tier == 'thorough'
    ncl = r.choice([1, 1, 2, 3])
    clients = []
    for _ in range(ncl):
        if r.random() < 0.4:
            spec = W.gen_yaml_client(r)
        else:
            spec = W.gen_hand_client(r, hmax=6, wmax=6, n_pool=0, valid_start=True)
            if r.random() < 0.5:
                spec['obs']['name'] = 'stochastic_raytracing'
        spec['outer'] = r.choice(['default', 'no-overlap', 'compact'])
        if r.random() < 0.12:
            # never given a seed: randomness comes from the library-level generator (controlled with reset_gv_rng)
            spec['unseeded'] = True
        clients.append(spec)
    rec['clients'] = clients
    n = r.randint(30, 120 if not big else 400)
    ops = []
    started = [False] * ncl
    pre = r.random() < 0.3
    for c in range(ncl):
        if pre:
            # reads before the first reset must raise
            ops.append([c, r.choice(['read_state', 'read_obs_raw', 'outer_read'])])
        if r.random() < 0.8 and not clients[c].get('unseeded'):
            ops.append([c, 'set_seed', W.gen_seed(r)])
    while len(ops) < n:
        c = r.randrange(ncl)
        if not started[c]:
            ops.append([c, 'reset'])
            started[c] = True
            continue
        m = r.random()
        if m < 0.40:
            ops.append([c, r.choice(['step', 'step', 'outer_step']), r.randrange(64)])
            # fault window: right after a step and before the first read
            if r.random() < 0.25:
                ops.extend(_fault(r, c))
        elif m < 0.70:
            ops.append([c, 'read_obs', r.choice([1, 1, 2, 3, 5])])
            if r.random() < 0.25:
                ops.extend(_fault(r, c))  # right after a read (memo is warm)
        elif m < 0.78:
            ops.append([c, 'outer_read'])
        elif m < 0.84:
            ops.append([c, 'read_state'])
        elif m < 0.90:
            ops.append([c, r.choice(['reset', 'outer_reset'])])
            if r.random() < 0.3:
                ops.extend(_fault(r, c))
        elif m < 0.93:
            if clients[c].get('unseeded') and r.random() < 0.7:
                ops.append([c, 'read_state'])  # mostly stays unseeded
            else:
                ops.append([c, 'set_seed', W.gen_seed(r)])
        elif m < 0.945:
            # the representation objects of the outer environment are public attributes (the gym layer re-assigns them)
            ops.append([c, 'outer_switch', r.choice(['state', 'observation']), r.choice(['default', 'no-overlap', 'compact'])])
            if r.random() < 0.8:
                ops.append([c, 'outer_read'])
        elif m < 0.965:
            # a planner uses the functional interface of the same environment object between stateful calls
            ops.append([c, 'lookahead', r.randrange(64), r.randrange(64), r.choice(['step', 'obs', 'both'])])
            if r.random() < 0.7:
                ops.append([c, 'read_obs', r.choice([1, 2])])
        else:
            ops.extend(_fault(r, c))
    rec['ops'] = ops
    return rec


def _fault(r, c):
    m = r.random()
    if m < 0.4:
        return [[c, 'bad_action', r.choice(['outside', 'int', 'none']), r.randrange(64)]]
    k = r.choice(['reseed_gv', 'draw_gv', 'np_seed', 'np_draw', 'py_seed', 'py_draw', 'clear_caches', 'cache_pressure'])
    if k in ('reseed_gv', 'np_seed', 'py_seed'):
        return [['adv', k, r.randrange(2**31)]]
    if k in ('draw_gv', 'np_draw', 'py_draw'):
        return [['adv', k, r.randint(1, 5)]]
    if k == 'cache_pressure':
        return [['adv', k, r.randint(3, 12), r.randrange(1000)]]
    return [['adv', k]]


def _snap(arrays):
    """private copy of returned arrays, taken before anything else in the library is called"""
    if isinstance(arrays, dict):
        return {k: np.array(v, copy=True) for k, v in arrays.items()}
    return arrays


def arrays_equal(a, b):
    if not isinstance(a, dict) or not isinstance(b, dict) or sorted(a) != sorted(b):
        return False
    def same(x, y):
        x, y = np.asarray(x), np.asarray(y)
        if x.dtype != y.dtype or x.shape != y.shape:
            return False
        # a NaN on both sides is the same answer (1xN grids normalise the agent's row as 0/0 with numpy coordinates)
        return bool(np.array_equal(x, y, equal_nan=True)) if np.issubdtype(x.dtype, np.floating) else bool(np.array_equal(x, y))

    return all(same(a[k], b[k]) for k in a)


class MirrorSim(Sim):
    def __init__(self, record, ctx):
        super().__init__(record, ctx, [])
        from gym_gridverse.outer_env import OuterEnv
        from gym_gridverse.representations.observation_representations import make_observation_representation
        from gym_gridverse.representations.state_representations import make_state_representation

        self.twins = []
        for cl in self.clients:
            tw = Client(cl.idx, cl.spec, self)
            self.twins.append(tw)
            cl.S = None
            cl.O = None
            cl.fresh = False
            cl.reads_since_change = 0
            name = cl.spec.get('outer', 'default')
            srep = sut(make_state_representation, name, cl.env.state_space)
            orep = make_observation_representation(name, cl.env.observation_space)
            cl.srep = None if isinstance(srep, Raised) else srep
            cl.orep = orep
            # the outer env gets its own representation objects; ours are the oracle's
            srep2 = sut(make_state_representation, name, cl.env.state_space)
            cl.outer = OuterEnv(cl.env, state_representation=None if isinstance(srep2, Raised) else srep2,
                                observation_representation=make_observation_representation(name, cl.env.observation_space))

    # ---- helpers
    def pair(self, cl, real_call, twin_call):
        """the stateful call and its functional mirror.  An environment that was never given a seed draws from the
        library-level generator, which both share: the mirror starts from the generator state the stateful call
        started from, and both must leave it in the same state."""
        from gym_gridverse import rng as gvrng

        if cl.rng_state() is not None and self.twins[cl.idx].rng_state() is not None:
            return sut(real_call), sut(twin_call), True
        import copy

        g = gvrng.get_gv_rng()
        st0 = copy.deepcopy(g.bit_generator.state)
        r = sut(real_call)
        st1 = copy.deepcopy(g.bit_generator.state)
        g.bit_generator.state = st0
        f = sut(twin_call)
        st2 = copy.deepcopy(g.bit_generator.state)
        g.bit_generator.state = st1
        self.ctx.probe('unseeded_environment_op')
        return r, f, st1 == st2

    def lockstep(self, cl, where):
        a, b = cl.rng_state(), self.twins[cl.idx].rng_state()
        if a != b:
            self.violate('mirror', 'generator_drift', where, cl.mspec['obs']['name'], 'the stateful environment consumed randomness differently from the functional threading')
            return False
        return True

    def same_state(self, cl, where):
        if state_key(cl.S) != cl.Skey:
            self.violate('mirror', 'returned_state_changed_later', where, '-', 'a state returned by the functional interface changed after it was returned')
            return False
        if state_key(cl.env.state) != cl.Skey:
            self.violate('mirror', 'state_differs', where, '-', f'stateful {world_of(cl.env.state)["agent"]} vs functional {world_of(cl.S)["agent"]}')
            return False
        return True

    # ---- ops
    def op_set_seed(self, cl, seed):
        cl.env.set_seed(seed)
        self.twins[cl.idx].env.set_seed(seed)
        self.ctx.log('seed', cl.idx, seed)

    def _reset(self, cl, via):
        tw = self.twins[cl.idx]
        r, S, same_draws = self.pair(cl, cl.outer.reset if via == 'outer' else cl.env.reset, tw.env.functional_reset)
        if not same_draws and not (isinstance(r, Raised) or isinstance(S, Raised)):
            self.violate('mirror', 'generator_drift', 'reset', 'library_generator', 'an unseeded environment consumed the library generator differently from the functional threading')
            return
        if isinstance(r, Raised) or isinstance(S, Raised):
            if isinstance(r, Raised) != isinstance(S, Raised):
                self.violate('mirror', 'reset_outcome_differs', via, '-', f'{r!r} vs {S!r}')
            self.ctx.count('sut_exception')
            return
        cl.started = True
        cl.S, cl.O, cl.fresh, cl.reads_since_change = S, None, False, 0
        cl.Skey = state_key(S)
        cl.calls_at_change = cl.obs_calls
        self.ctx.log('reset', cl.idx, state_key(S))
        self.ctx.state(state_key(S))
        self.ctx.probe('reset_mid_episode') if cl.meta.get('stepped') else None
        self.same_state(cl, 'reset') and self.lockstep(cl, 'reset')

    def op_reset(self, cl):
        self._reset(cl, 'inner')

    def op_outer_reset(self, cl):
        self._reset(cl, 'outer')

    def _step(self, cl, k, via):
        if not cl.started:
            return
        tw = self.twins[cl.idx]
        a = action_of(cl.actions[k % len(cl.actions)])
        if cl.reads_since_change == 0:
            self.ctx.probe('step_without_read')
        S_before = cl.S
        r, f, same_draws = self.pair(cl, lambda: (cl.outer.step if via == 'outer' else cl.env.step)(a), lambda: tw.env.functional_step(S_before, a))
        if not same_draws and not (isinstance(r, Raised) or isinstance(f, Raised)):
            self.violate('mirror', 'generator_drift', 'step', 'library_generator', 'an unseeded environment consumed the library generator differently from the functional threading')
            return
        if isinstance(r, Raised) or isinstance(f, Raised):
            if isinstance(r, Raised) != isinstance(f, Raised):
                self.violate('mirror', 'step_outcome_differs', via, '-', f'{r!r} vs {f!r}')
            self.ctx.count('sut_exception')
            return
        cl.meta['stepped'] = True
        S1, fr, fd = f
        cl.S, cl.O, cl.fresh, cl.reads_since_change = S1, None, False, 0
        cl.Skey = state_key(S1)
        cl.calls_at_change = cl.obs_calls
        self.ctx.log('step', cl.idx, a.name, state_key(S1), repr(fr), bool(fd))
        self.ctx.state(state_key(S1))
        if r[0] != fr or bool(r[1]) != bool(fd):
            self.violate('mirror', 'reward_or_flag_differs', via, '-', f'stateful {r!r} vs functional {(fr, fd)!r}')
            return
        self.same_state(cl, 'step') and self.lockstep(cl, 'step')

    def op_step(self, cl, k):
        self._step(cl, k, 'inner')

    def op_outer_step(self, cl, k):
        self._step(cl, k, 'outer')

    def op_read_obs(self, cl, n):
        if not cl.started:
            return
        tw = self.twins[cl.idx]
        for j in range(n):
            g0 = cl.rng_state()
            if not cl.fresh:
                S_now = cl.S
                o, cl.O, same_draws = self.pair(cl, lambda: cl.env.observation, lambda: tw.env.functional_observation(S_now))
                cl.Okey = None if isinstance(cl.O, Raised) else state_key(cl.O)
                cl.fresh = True
                if not same_draws and not (isinstance(o, Raised) or isinstance(cl.O, Raised)):
                    self.violate('mirror', 'generator_drift', 'read', 'library_generator', 'an unseeded environment consumed the library generator differently from the functional threading')
                    return
            else:
                from gym_gridverse import rng as gvrng

                gv0 = repr(gvrng.get_gv_rng().bit_generator.state)
                o = sut(lambda: cl.env.observation)
                if repr(gvrng.get_gv_rng().bit_generator.state) != gv0 and cl.rng_state() is None:
                    self.violate('mirror', 'repeated_read_consumed_randomness', 'read', 'library_generator', 'a repeated read advanced the library generator')
                    return
            if isinstance(o, Raised) or isinstance(cl.O, Raised):
                if isinstance(o, Raised) != isinstance(cl.O, Raised):
                    self.violate('mirror', 'observation_outcome_differs', 'read', '-', f'{o!r} vs {cl.O!r}')
                self.ctx.count('sut_exception')
                return
            cl.reads_since_change += 1
            if cl.reads_since_change == 1:
                self.ctx.probe('read_after_change')
            else:
                self.ctx.probe('repeated_read')
                if cl.rng_state() != g0:
                    self.violate('mirror', 'repeated_read_consumed_randomness', 'read', cl.mspec['obs']['name'], 'a repeated read advanced the generator')
                    return
            if state_key(o) != cl.Okey:
                stale = 'stale' if cl.reads_since_change == 1 else 'changed_between_reads'
                self.violate('mirror', 'observation_differs', 'read', stale, 'observation read is not the observation of the current state')
                return
            if cl.obs_calls - cl.calls_at_change > 1:
                self.violate('mirror', 'observation_computed_twice', 'read', '-', f'{cl.obs_calls - cl.calls_at_change} computations for one state')
                return
            self.ctx.log('obs', cl.idx, state_key(o))
        self.lockstep(cl, 'read')

    def op_read_obs_raw(self, cl):
        if cl.started:
            return
        r = sut(lambda: cl.env.observation)
        self.ctx.probe('read_before_reset')
        if not isinstance(r, Raised):
            self.violate('mirror', 'read_before_reset_did_not_raise', 'observation', '-', 'observation before the first reset returned a value')

    def op_read_state(self, cl):
        r = sut(lambda: cl.env.state)
        if not cl.started:
            self.ctx.probe('read_before_reset')
            if not isinstance(r, Raised):
                self.violate('mirror', 'read_before_reset_did_not_raise', 'state', '-', 'state before the first reset returned a value')
            elif r.type != 'RuntimeError':
                self.ctx.count('state_guard_other_exception:' + r.type)
        else:
            if isinstance(r, Raised):
                self.violate('mirror', 'state_read_raised', 'state', r.type, repr(r))
            else:
                self.same_state(cl, 'read_state')

    def op_outer_read(self, cl):
        """OuterEnv.state / .observation expose exactly the representations of the inner values"""
        if not cl.started:
            r = sut(lambda: cl.outer.observation)
            self.ctx.probe('read_before_reset')
            if not isinstance(r, Raised):
                self.violate('mirror', 'read_before_reset_did_not_raise', 'outer.observation', '-', 'returned a value')
            return
        self.op_read_obs(cl, 1)  # keeps the twin's memo in step (outer.observation reads inner.observation)
        arr = _snap(sut(lambda: cl.outer.observation))
        exp = _snap(sut(cl.orep.convert, cl.O)) if not isinstance(cl.O, Raised) else cl.O
        if isinstance(arr, Raised) or isinstance(exp, Raised):
            if isinstance(arr, Raised) != isinstance(exp, Raised):
                self.violate('mirror', 'outer_observation_outcome_differs', 'outer', '-', f'{arr!r} vs {exp!r}')
            return
        if not arrays_equal(arr, exp):
            self.violate('mirror', 'outer_observation_differs', 'outer', cl.spec.get('outer', 'default'), 'OuterEnv.observation is not the representation of the inner observation')
            return
        self.ctx.probe('outer_observation_read')
        if cl.srep is not None:
            sarr = _snap(sut(lambda: cl.outer.state))
            sexp = _snap(sut(cl.srep.convert, cl.S))
            if isinstance(sarr, Raised) or isinstance(sexp, Raised):
                if isinstance(sarr, Raised) != isinstance(sexp, Raised):
                    self.violate('mirror', 'outer_state_outcome_differs', 'outer', '-', f'{sarr!r} vs {sexp!r}')
                return
            if not arrays_equal(sarr, sexp):
                self.violate('mirror', 'outer_state_differs', 'outer', cl.spec.get('outer', 'default'), 'OuterEnv.state is not the representation of the inner state')
                return
            self.ctx.probe('outer_state_read')
        self.lockstep(cl, 'outer_read')

    def op_outer_switch(self, cl, which, name):
        from gym_gridverse.representations.observation_representations import make_observation_representation
        from gym_gridverse.representations.state_representations import make_state_representation

        mk, space = ((make_state_representation, cl.env.state_space) if which == 'state' else (make_observation_representation, cl.env.observation_space))
        theirs, mine = sut(mk, name, space), sut(mk, name, space)
        if isinstance(theirs, Raised) or isinstance(mine, Raised):
            return
        setattr(cl.outer, which + '_representation', theirs)
        if which == 'state':
            cl.srep = mine
        else:
            cl.orep = mine
        cl.spec['outer'] = cl.spec.get('outer', 'default')  # (site names keep the construction-time name)
        self.ctx.fault('outer_representation_reassigned')

    def op_lookahead(self, cl, i, k, what):
        """functional calls on the real environment (and, to stay in generator lock-step, on the twin)"""
        if not cl.started:
            return
        tw = self.twins[cl.idx]
        past = cl.meta.setdefault('past', [])
        if not past or state_key(past[-1]) != state_key(cl.S):
            past.append(cl.S)
            del past[:-6]
        P = P2 = past[i % len(past)]
        live = i % 3 == 0
        if live:
            # the planner starts from the very object the environment holds (the twin gets its own equal state)
            P, P2 = cl.env.state, cl.S
            self.ctx.probe('lookahead_from_live_state_object')
        name = cl.actions[k % len(cl.actions)]
        if k % 2 == 0 and 'ACTUATE' in cl.actions:
            w = world_of(P)
            fy, fx = M.front(w)
            if M.inside(w, fy, fx) and w['cells'][fy][fx][0] in ('Door', 'Box'):
                name = 'ACTUATE'
                self.ctx.probe('lookahead_actuates')
        a = action_of(name)
        self.ctx.fault('functional_calls_on_live_env_' + what)
        calls0 = cl.obs_calls
        Q = P
        if what in ('step', 'both'):
            r1, r2, _same = self.pair(cl, lambda: cl.env.functional_step(P, a), lambda: tw.env.functional_step(P2, a))
            if isinstance(r1, Raised) or isinstance(r2, Raised):
                return
            if state_key(r1[0]) != state_key(r2[0]) or r1[1] != r2[1] or bool(r1[2]) != bool(r2[2]):
                self.violate('mirror', 'functional_step_differs_between_instances', 'lookahead', '-', 'two equally seeded instances in generator lock-step answer the same functional question differently')
                return
            Q = r1[0]
        if what in ('obs', 'both'):
            o1, o2, _same = self.pair(cl, lambda: cl.env.functional_observation(Q), lambda: tw.env.functional_observation(Q))
            if isinstance(o1, Raised) or isinstance(o2, Raised):
                return
            if state_key(o1) != state_key(o2):
                self.violate('mirror', 'functional_observation_differs_between_instances', 'lookahead', '-', 'functional_observation differs between two equally seeded instances in lock-step')
                return
        # observation computations made by the planner itself are not computations "for the current state"
        cl.calls_at_change = getattr(cl, 'calls_at_change', 0) + (cl.obs_calls - calls0)
        # the stateful side must be untouched by functional use: state unchanged, memo still belongs to the state
        self.same_state(cl, 'after_functional_calls') and self.lockstep(cl, 'after_functional_calls')

    def op_bad_action(self, cl, kind, k):
        """C01 says a rejected action changes nothing: the C04 invariants must survive it"""
        if not cl.started:
            return
        allowed = set(cl.actions)
        if kind == 'outside':
            outside = [a for a in M.MOVES.keys() | M.TURNS.keys() | {'ACTUATE', 'PICK_N_DROP'} if a not in allowed]
            if not outside:
                return
            bad = action_of(sorted(outside)[k % len(outside)])
        elif kind == 'int':
            bad = k % 8
        else:
            bad = None
        sut(cl.env.step, bad)
        self.ctx.fault('bad_action_' + kind)
        self.same_state(cl, 'after_rejected_action') and self.lockstep(cl, 'after_rejected_action')


def execute(record, ctx):
    sim = MirrorSim(record, ctx)
    sim.run()
    if ctx.ticks >= 10 and ctx.fired > 0 and ctx.stats.get('probe:read_after_change') and ctx.stats.get('probe:repeated_read'):
        ctx.distinct.add(ctx.trace_digest())
    ctx.sample = {'clients': [c.get('yaml') or {'chain': c['chain'], 'obs': c['obs']} for c in record['clients']], 'ops_head': record['ops'][:14], 'n_ops': len(record['ops'])}


def simplify(record):
    import copy

    if len(record['clients']) > 1:
        for i in range(len(record['clients'])):
            r2 = copy.deepcopy(record)
            # keep indices stable: replace by dropping ops of that actor
            r2['ops'] = [o for o in r2['ops'] if o[0] != i]
            yield r2
