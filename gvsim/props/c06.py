"""C06 - hidden cells carry no information (engine: viewsim, profile `occlusion`).  Weak fit (DESIGN.md section 0),
kept for its literal fault formulation: corrupt hidden world state, the observation must not change."""
import numpy as np

from gvsim import model as M
from gvsim import views as V
from gvsim import worlds as W
from gvsim.kernel import stream
from gvsim.props import common
from gvsim.lib import BUILTIN_TYPES, COLORS, HEADINGS, blocks_vision, mk_obj, mk_state, sha, world_of, wkey
from gvsim.sim import Raised, sut

PROP = 'C06'
TIERS = {'quick': {'runs': 1400, 'wall': 100}, 'thorough': {'runs': 40000, 'wall': 1500}}
REACH = ['corrupt_hidden_opacity_flip', 'corrupt_outside', 'monotone_probe', 'scripted_first', 'mask_checked', 'from_visibility_with_built_visibility_function']  # probes / faults that must fire in every batch (reach gaps are reported in the evidence)
RULE = ('one run = a free-form world rich in occluders (walls, closed / locked / open doors), one occluding observation '
        'function (partially_occluded, raytracing, stochastic_raytracing) and a view area, and a walking client; at '
        'every read the faults corrupt_hidden (replace the content of a world cell that is reported Hidden or lies '
        'outside the view by any object, opaque <-> transparent included, in a twin of the state) and monotone_probe '
        '(make a visible opaque cell transparent) are injected, and the visibility mask is checked for the chain '
        'condition; the stochastic mask is bounded by the deterministic one for scripted (incl. extreme) and seeded '
        'draws; evaluations = observation reads; distinct = distinct (function, area, world, pose, fault) digests; '
        'non-trivial = at least one cell hidden and one shown')
REAL = ['gym_gridverse.envs.observation_functions (partially_occluded, raytracing, stochastic_raytracing)', 'gym_gridverse.envs.visibility_functions (same, called on the egocentric grid)',
        'gym_gridverse.utils.raytracing', 'gym_gridverse.grid / geometry', 'transition functions move_agent / turn_agent (walking client)']
STUB = ['ScriptedRng (stochastic variant, scripted profiles)']
ASSUMPTIONS = ['the agent\'s own cell counts as a link of the chain whatever it holds',
               'non-interference is judged for the deterministic functions; the stochastic variant only for its bounds']
NAMES = ['partially_occluded', 'raytracing', 'stochastic_raytracing']


def rand_obj(r):
    t = r.choice(['Floor', 'Wall', 'Wall', 'Exit', 'Door', 'Door', 'Key', 'MovingObstacle', 'Box', 'Telepod', 'Beacon'])
    return W.gen_obj(r, t, COLORS, inner=['Floor', 'Key', 'Wall'])


def generate(seed, run, tier):
    r = stream(seed, PROP, run, 'gen')
    big = tier == 'thorough'
    name = NAMES[run % 3] if r.random() < 0.7 else r.choice(NAMES)
    area = V.gen_area(r, name, 9 if big else 7, behind_ok=True)
    world = V.gen_view_world(r, 8 if big else 7, 8 if big else 7, occluders=True)
    if r.random() < 0.12:
        # boundary condition: the view covers the grid exactly for one pose
        from gvsim.worlds import aligned_pose
        from gvsim.lib import COLORS as _C, BUILTIN_TYPES as _T
        from gvsim import worlds as _W

        hd = r.choice(HEADINGS)
        ah, aw, ay, ax = aligned_pose(area, hd)
        if 0 <= ay < ah and 0 <= ax < aw:
            world = _W.gen_world(r, ah, aw, list(_T), _C, valid_start=False)
            world['agent'][0], world['agent'][1], world['agent'][2] = ay, ax, hd
    ops = [['mask']] if name != 'stochastic_raytracing' else []
    for _ in range(r.randint(10, 30)):
        m = r.random()
        if m < 0.55:
            ops.append(['walk', r.randrange(6)])
        else:
            ops.append(['place', r.choice([0, -1, r.randrange(8)]), r.choice([0, -1, r.randrange(8)]), r.choice(HEADINGS)])
        # faults land at the read (the only moment hidden state could leak)
        if name != 'stochastic_raytracing':
            ops.append(['corrupt', r.randrange(256), rand_obj(r), r.choice(['hidden', 'hidden', 'outside'])])
            if r.random() < 0.5:
                ops.append(['monotone', r.randrange(256)])
            ops.append(['mask'])
        else:
            ops.append(['stoch', r.choice(['real', 'uniform', 'first', 'last', 'mixed']), r.randrange(2**31)])
    vis = None
    if name == 'raytracing' and r.random() < 0.3:
        # ray counts are integers: an absolute threshold in (0, 1] is the default ray-traced view
        vis = {'name': 'raytracing', 'threshold': r.choice([1, 1.0, 0.5, 0.25, 0.99])}
        if r.random() < 0.3:
            vis['absolute_counts'] = True
    elif name == 'partially_occluded' and r.random() < 0.2:
        vis = {'name': 'partially_occluded'}
    rec = {'property': PROP, 'seed': seed, 'run': run, 'tier': tier, 'debug': r.random() < 0.5, 'world': world,
            'obs': {'name': name, 'area': area}, 'vis': vis, 'via_factory': r.random() < 0.5, 'ops': ops,
            'alias_objects': stream(seed, PROP, run, 'alias').random() < 0.15}
    rec.update(common.knobs(PROP, seed, run))
    return rec


def execute(record, ctx):
    from gym_gridverse.agent import Agent
    from gym_gridverse.envs.visibility_functions import visibility_function_registry as vreg
    from gym_gridverse.geometry import Orientation, Position
    from gym_gridverse.state import State

    common.probe_knobs(record, ctx)
    name, area = record['obs']['name'], record['obs']['area']
    obs_f = V.mk_obs_function(name, area, record['via_factory'], record.get('vis'))
    if record.get('vis'):
        ctx.probe('from_visibility_with_built_visibility_function')
    state = mk_state(record['world'])
    vh, vw = M.view_shape(area)
    anchor = M.view_anchor(area)
    sample = None
    fan = None
    for i, op in enumerate(record['ops']):
        ctx.ticks += 1
        kind = op[0]
        if kind == 'walk':
            s2 = sut(V.walk, state, op[1])
            if not isinstance(s2, Raised):
                state = s2
            continue
        if kind == 'place':
            h, w = state.grid.shape.height, state.grid.shape.width
            y = h - 1 if op[1] == -1 else op[1] % h
            x = w - 1 if op[2] == -1 else op[2] % w
            state = State(state.grid, Agent(Position(y, x), Orientation[op[3]], state.agent.grid_object))
            continue
        w = world_of(state)
        ctx.count('cases')
        if kind == 'corrupt':
            o = sut(obs_f, state)
            if isinstance(o, Raised):
                ctx.count('sut_exception')
                continue
            ow = world_of(o)
            _, k, obj, where = op
            # the visibility the observation function itself applied (not only the bare visibility function):
            # the agent's own cell is shown and every shown cell is linked to it by shown transparent cells
            gt0 = V.ground_truth(w, area)
            shown = V.mask_of(ow)
            opq = np.array([[blocks_vision(t if t is not None else ('Hidden',)) for (t, _) in row] for row in gt0], dtype=bool)
            in_grid = np.array([[t is not None for (t, _) in row] for row in gt0], dtype=bool)
            if shown.shape == in_grid.shape and 0 <= anchor[0] < vh and 0 <= anchor[1] < vw and in_grid[anchor]:
                if not shown[anchor]:
                    ctx.violate('occlusion', 'agent_cell_not_visible', name, 'observation', i, f'the observation hides the agent\'s own cell {anchor}; area {area} agent {w["agent"][:3]}')
                    continue
                okc, badc = V.chain_ok(shown, opq, anchor)
                if not okc:
                    ctx.violate('occlusion', 'visible_without_chain', name, 'observation', i, f'the observation shows view cell {badc} although no chain of adjacent transparent visible cells links it to the agent at {anchor}; area {area} agent {w["agent"][:3]}')
                    continue
            # cells of the world that the observation does not show
            gt = V.ground_truth(w, area)
            in_view = {}
            for vy in range(vh):
                for vx in range(vw):
                    t, pos = gt[vy][vx]
                    if t is not None:
                        in_view[pos] = ow['cells'][vy][vx] == ('Hidden',)
            if where == 'hidden':
                cand = sorted(p for p, hidden in in_view.items() if hidden)
            else:
                cand = sorted((y, x) for y in range(w['h']) for x in range(w['w']) if (y, x) not in in_view)
            if not cand:
                continue
            y, x = cand[k % len(cand)]
            twin = M.mutable(w)
            twin['cells'][y][x] = tuple(M._t(obj))
            if twin['cells'][y][x] == w['cells'][y][x]:
                twin['cells'][y][x] = ('Wall',) if w['cells'][y][x] != ('Wall',) else ('Floor',)
            o2 = sut(obs_f, mk_state(twin))
            flip = blocks_vision(w['cells'][y][x]) != blocks_vision(twin['cells'][y][x])
            ctx.fault('corrupt_' + where + ('_opacity_flip' if flip else ''))
            ctx.log('corrupt', (y, x), wkey(ow))
            if isinstance(o2, Raised) or world_of(o2) != ow:
                ctx.violate('occlusion', 'hidden_cell_influences_observation', name, where + ('_opacity_flip' if flip else '_same_opacity'), i,
                            f'replacing {where} world cell {(y, x)} {w["cells"][y][x]} by {twin["cells"][y][x]} changed the observation; area {area} agent {w["agent"][:3]}')
                continue
            shown = sum(c != ('Hidden',) for row in ow['cells'] for c in row)
            if shown and shown < vh * vw:
                ctx.distinct.add(sha((name, area, wkey(w), y, x)))
            if sample is None:
                sample = {'obs': record['obs'], 'agent': list(w['agent'][:3]), 'corrupted_cell': [y, x], 'from': list(w['cells'][y][x]), 'to': list(twin['cells'][y][x]), 'shown': shown}
        elif kind in ('mask', 'monotone', 'stoch'):
            if not (0 <= anchor[0] < vh and 0 <= anchor[1] < vw):
                continue
            grid, gt = V.ego_grid(w, area)
            opaque = np.array([[blocks_vision(t if t is not None else ('Hidden',)) for (t, _) in row] for row in gt], dtype=bool)
            pos = Position(*anchor)
            det_name = 'raytracing' if name == 'stochastic_raytracing' else name
            v = sut(vreg[det_name], grid, pos)
            if isinstance(v, Raised):
                ctx.count('sut_exception')
                continue
            v = np.asarray(v, dtype=bool)
            if kind == 'mask':
                ok, bad = V.chain_ok(v, opaque, anchor)
                ctx.probe('mask_checked')
                if not v[anchor]:
                    ctx.violate('occlusion', 'agent_cell_not_visible', name, '-', i, f'area {area} agent {w["agent"][:3]}')
                elif not ok:
                    ctx.violate('occlusion', 'visible_without_chain', name, '-', i, f'view cell {bad} is visible but no chain of adjacent transparent visible cells links it to the agent; area {area} agent {w["agent"][:3]}')
            elif kind == 'monotone':
                cand = [tuple(int(c) for c in p) for p in np.argwhere(v & opaque) if tuple(int(c) for c in p) != anchor and gt[p[0]][p[1]][0] is not None]
                if not cand:
                    continue
                y, x = cand[op[1] % len(cand)]
                grid2, _ = V.ego_grid(w, area)
                grid2[y, x] = mk_obj(('Floor',) if gt[y][x][0][0] != 'Door' else ('Door', 'OPEN', gt[y][x][0][2]))
                v2 = sut(vreg[det_name], grid2, pos)
                ctx.fault('monotone_probe')
                if isinstance(v2, Raised):
                    continue
                v2 = np.asarray(v2, dtype=bool)
                if np.any(v & ~v2):
                    lost = tuple(int(c) for c in np.argwhere(v & ~v2)[0])
                    ctx.violate('occlusion', 'not_monotone', name, '-', i, f'making visible opaque view cell {(y, x)} transparent hid view cell {lost}; area {area} agent {w["agent"][:3]}')
            else:
                _, mode, seed = op
                sv = sut(vreg['stochastic_raytracing'], grid, pos, rng=V.mk_rng(mode, seed))
                if isinstance(sv, Raised):
                    ctx.count('sut_exception')
                    continue
                sv = np.asarray(sv, dtype=bool)
                ctx.fault('scripted_' + mode) if mode != 'real' else ctx.count('real_seeded')
                # cells every ray reaches lit: recompute the counts with the real ray fan
                from gym_gridverse.utils.raytracing import compute_rays_fancy

                num = np.zeros((vh, vw), dtype=int)
                den = np.zeros((vh, vw), dtype=int)
                if fan is None:
                    fan = compute_rays_fancy(pos, grid.area)  # once per run (anchor and view shape are fixed)
                for ray in fan:
                    light = True
                    for p in ray:
                        num[p.y, p.x] += int(light)
                        den[p.y, p.x] += 1
                        light = light and not opaque[p.y, p.x]
                always = (den > 0) & (num == den)
                if np.any(sv & ~v):
                    c = tuple(int(t) for t in np.argwhere(sv & ~v)[0])
                    ctx.violate('occlusion', 'stochastic_shows_impossible_cell', 'stochastic_raytracing', 'draw_' + mode, i,
                                f'view cell {c} has no lit ray but is shown ({mode} draws); area {area} agent {w["agent"][:3]}')
                elif np.any(always & ~sv):
                    c = tuple(int(t) for t in np.argwhere(always & ~sv)[0])
                    ctx.violate('occlusion', 'stochastic_hides_certain_cell', 'stochastic_raytracing', 'draw_' + mode, i,
                                f'view cell {c} is reached lit by every ray but is hidden ({mode} draws); area {area} agent {w["agent"][:3]}')
                if np.any(v) and not np.all(v):
                    ctx.distinct.add(sha((name, area, wkey(w), mode, seed)))
                if sample is None:
                    sample = {'obs': record['obs'], 'agent': list(w['agent'][:3]), 'draws': mode, 'visible_det': int(v.sum()), 'visible_stoch': int(sv.sum())}
    ctx.sample = sample


from gvsim.props.c05 import simplify  # noqa: E402,F401
