"""C11 - stochastic dynamics obey their rules for every random outcome (profile `stochastic`).

The simulator owns every random outcome through ScriptedRng (uniform / extreme / forced), and
also runs real seeded Generators.  Outcome forcing re-executes one step from the same state for
every resolution of its random choices.
"""
import itertools

import numpy as np

from gvsim import model as M
from gvsim.kernel import stream
from gvsim.lib import ACTIONS, COLORS, action_of, mk_state, world_of
from gvsim.props import common
from gvsim.scripted_rng import ScriptedRng
from gvsim.sim import Raised, Sim, inject_rng, sut

PROP = 'C11'
TIERS = {'quick': {'runs': 2400, 'wall': 100}, 'thorough': {'runs': 60000, 'wall': 1500}}
REACH = ['forced_outcome', 'scripted_first', 'scripted_last', 'obstacle_support_checked', 'obstacle_support_checked_boxed_in', 'teleport_support_checked', 'knob:two_nested_chains']  # probes / faults that must fire in every batch (reach gaps are reported in the evidence)
RULE = ('one run = a family of small layouts (0-5 moving obstacles: cornered, adjacent, boxed in, next to exits / doors / '
        'the agent; telepods of several colours: paired, unpaired, triples) and a seeded op list: steps through a real '
        'GridWorld whose generator is a ScriptedRng (uniform / first / last / mixed outcomes) or a real seeded '
        'Generator, direct component calls, and OUTCOME FORCING (the same step re-executed for every resolution of its '
        'random choices); distinct = executed-trace digest; non-trivial = >= 1 forced or scripted step in which an '
        'obstacle had a choice or a teleport fired')
REAL = common.REAL_SIM
STUB = ['ScriptedRng in place of numpy.random.Generator (scripted profiles; differential self-test against the real Generator at setup)'] + common.STUB_SIM
ASSUMPTIONS = ['the order in which obstacles take their turn is not fixed by the property: any order explaining the outcome is accepted',
               'obstacle-order search is bounded to 6 obstacles; larger cases are counted as undecided, never reported']


def gen_layout(r, hmax=6, wmax=6):
    h, w = r.randint(1, hmax), r.randint(1, wmax)
    cells = [[['Floor'] for _ in range(w)] for _ in range(h)]
    n = h * w
    pos = [(y, x) for y in range(h) for x in range(w)]
    # scenery
    for (y, x) in pos:
        m = r.random()
        if m < 0.12:
            cells[y][x] = ['Wall']
        elif m < 0.16:
            cells[y][x] = ['Exit', 'NONE']
        elif m < 0.20:
            cells[y][x] = ['Door', r.choice(['OPEN', 'CLOSED', 'LOCKED']), r.choice(COLORS)]
        elif m < 0.23:
            cells[y][x] = ['Key', r.choice(COLORS)]
        elif m < 0.25:
            cells[y][x] = ['Box', ['MovingObstacle'] if r.random() < 0.5 else ['Telepod', r.choice(COLORS)]]
        elif m < 0.27:
            cells[y][x] = ['Beacon', r.choice(COLORS)]
    # obstacles, often clustered
    k = r.choice([0, 1, 1, 1, 2, 2, 3, 4, 5])
    k = min(k, n)
    if k:
        y, x = r.choice(pos)
        placed = 0
        tries = 0
        while placed < k and tries < 50:
            tries += 1
            if cells[y][x][0] != 'MovingObstacle':
                cells[y][x] = ['MovingObstacle']
                placed += 1
            if r.random() < 0.6:
                dy, dx = r.choice([(-1, 0), (1, 0), (0, -1), (0, 1)])
                y, x = min(max(y + dy, 0), h - 1), min(max(x + dx, 0), w - 1)
            else:
                y, x = r.choice(pos)
    # telepods
    cols = r.sample(COLORS, r.randint(0, 3))
    for c in cols:
        for _ in range(r.choice([1, 2, 2, 3])):
            y, x = r.choice(pos)
            cells[y][x] = ['Telepod', c]
    # agent
    tp = [(y, x) for (y, x) in pos if cells[y][x][0] == 'Telepod']
    hd = r.choice(['FORWARD', 'RIGHT', 'BACKWARD', 'LEFT'])
    if tp and r.random() < 0.6:
        ay, ax = r.choice(tp)
        if r.random() < 0.5:
            # stand next to it, facing it
            dy, dx = M.FWD[hd]
            if 0 <= ay - dy < h and 0 <= ax - dx < w and cells[ay - dy][ax - dx][0] in ('Floor', 'MovingObstacle', 'Exit'):
                ay, ax = ay - dy, ax - dx
    else:
        ay, ax = r.choice(pos)
    held = ['NoneGridObject'] if r.random() < 0.7 else ['Key', r.choice(COLORS)]
    return {'h': h, 'w': w, 'cells': cells, 'agent': [ay, ax, hd, held]}


def generate(seed, run, tier):
    r = stream(seed, PROP, run, 'gen')
    rec = common.base_record(PROP, seed, run, tier)
    rec['debug'] = r.random() < 0.5
    big = tier == 'thorough'
    rec['worlds'] = [gen_layout(r, 7 if big else 5, 7 if big else 5) for _ in range(r.randint(2, 5))]
    chain = r.sample(['move_agent', 'turn_agent', 'pickndrop', 'actuate_door', 'actuate_box', 'move_obstacles', 'teleport'], r.randint(1, 7))
    for must in ('move_obstacles', 'teleport'):
        if must not in chain and r.random() < 0.7:
            chain.insert(r.randrange(len(chain) + 1), must)
    if r.random() < 0.25:
        chain = r.choice([['move_agent', 'turn_agent', 'move_obstacles'], ['move_agent', 'turn_agent', 'teleport']])
    rec['chain'] = chain
    if len(chain) >= 3 and r.random() < 0.2:
        i = r.randrange(len(chain) - 2)
        j = r.randint(i + 1, len(chain) - 1)
        rec['nest'] = [i, j]
        if r.random() < 0.6:
            rec['nest2'] = [j, r.randint(j + 1, len(chain))]
    ops = []
    for _ in range(r.randint(8, 30 if not big else 60)):
        m = r.random()
        wi, k, s = r.randrange(16), r.randrange(8), r.randrange(2**31)
        if m < 0.4:
            ops.append(['step', wi, k, r.choice(['real', 'uniform', 'first', 'last', 'mixed']), s])
        elif m < 0.7:
            ops.append(['force', wi, k, s])
        else:
            ops.append(['direct', r.choice(['move_obstacles', 'teleport']), wi, k, r.choice(['real', 'uniform', 'first', 'last', 'mixed', 'none']), s])
    rec['ops'] = ops
    return rec


# ------------------------------------------------------------------ oracles


def explain_obstacles(before, after):
    """is there a processing order in which every obstacle moved to a floor 4-neighbour at its turn, or
    had none and stayed?  returns True / False / None (undecided)"""
    obs0 = M.obstacles(before)
    if len(obs0) > 6:
        return None
    h, w = before['h'], before['w']
    target = frozenset(M.obstacles(after))
    floor0 = frozenset((y, x) for y in range(h) for x in range(w) if before['cells'][y][x][0] == 'Floor')

    def nb(p):
        y, x = p
        return [(yy, xx) for yy, xx in ((y - 1, x), (y, x + 1), (y + 1, x), (y, x - 1)) if 0 <= yy < h and 0 <= xx < w]

    seen = set()

    def rec(todo, obst, floor):
        key = (todo, obst)
        if key in seen:
            return False
        seen.add(key)
        if not todo:
            return obst == target
        for o in todo:
            rest = todo - {o}
            cand = [q for q in nb(o) if q in floor]
            if not cand:
                if rec(rest, obst, floor):
                    return True
            else:
                for q in cand:
                    if q not in target:
                        continue  # an obstacle that lands on q must still be there at the end unless it is
                        # another obstacle's start cell (never floor) - q was floor, so nobody leaves it
                    if rec(rest, (obst - {o}) | {q}, (floor - {q}) | {o}):
                        return True
        return False

    return rec(frozenset(obs0), frozenset(obs0), floor0)


def check_obstacles(sim, before, after, site):
    """relational post-condition of one move_obstacles application"""
    ctx = sim.ctx
    o0, o1 = M.obstacles(before), M.obstacles(after)
    if len(o0) != len(o1):
        sim.violate('stochastic', 'obstacle_count', site, f'{len(o0)}_to_{len(o1)}', f'obstacles {o0} -> {o1}')
        return False
    for y in range(before['h']):
        for x in range(before['w']):
            b, a = before['cells'][y][x], after['cells'][y][x]
            if b[0] not in ('Floor', 'MovingObstacle') and a != b:
                sim.violate('stochastic', 'obstacle_overwrote', site, b[0], f'cell {(y, x)} {b} -> {a}')
                return False
            if b[0] in ('Floor', 'MovingObstacle') and a[0] not in ('Floor', 'MovingObstacle'):
                sim.violate('stochastic', 'obstacle_created_object', site, a[0], f'cell {(y, x)} {b} -> {a}')
                return False
    if before['agent'] != after['agent']:
        sim.violate('stochastic', 'obstacles_moved_agent', site, '-', f'{before["agent"]} -> {after["agent"]}')
        return False
    ok = explain_obstacles(before, after)
    if ok is None:
        ctx.undecided['obstacle_order_search'] += 1
        return True
    if not ok:
        sim.violate('stochastic', 'obstacle_move_unexplained', site, f'{len(o0)}_obstacles', f'no turn order explains {o0} -> {o1} on {_show(before)}')
        return False
    if set(o0) != set(o1):
        ctx.probe('obstacle_moved')
    return True


def check_teleport(sim, before, after, site):
    partners = M.telepod_partners(before)
    if before['cells'] != after['cells'] or before['agent'][2:] != after['agent'][2:]:
        sim.violate('stochastic', 'teleport_changed_world', site, '-', 'teleport changed grid, heading or held item')
        return False
    pos0, pos1 = tuple(before['agent'][:2]), tuple(after['agent'][:2])
    if partners:
        sim.ctx.probe('teleport_fired')
        if pos1 not in partners:
            sim.violate('stochastic', 'teleport_destination', site, _tcause(before, pos1), f'from {pos0} to {pos1}, partners {partners}')
            return False
    elif pos1 != pos0:
        sim.violate('stochastic', 'teleport_without_partner', site, 'not_on_telepod' if partners is None else 'unpaired', f'{pos0} -> {pos1}')
        return False
    return True


def _tcause(w, pos):
    if not M.inside(w, *pos):
        return 'outside_grid'
    c = w['cells'][pos[0]][pos[1]]
    if pos == tuple(w['agent'][:2]):
        return 'stayed'
    return 'onto_' + c[0] + ('_other_colour' if c[0] == 'Telepod' else '')


def _show(w):
    sym = {'Floor': '.', 'Wall': '#', 'MovingObstacle': 'o', 'Exit': 'E', 'Door': 'D', 'Key': 'k', 'Box': 'B', 'Telepod': 'T', 'Beacon': 'b'}
    return '/'.join(''.join(sym.get(c[0], '?') for c in row) for row in w['cells'])


# ------------------------------------------------------------------ executor


class Runner:
    def __init__(self, record, ctx):
        self.rec = record
        self.ctx = ctx
        spec = {
            'kind': 'hand', 'world': record['worlds'][0], 'pool_worlds': [], 'chain': record['chain'],
            'rewards': [{'name': 'living_reward'}], 'term': {'name': 'bump_moving_obstacle'},
            'obs': {'name': 'fully_transparent', 'area': [[-2, 0], [-1, 1]]}, 'actions': list(ACTIONS),
            'types': ['Floor', 'Wall', 'Exit', 'Door', 'Key', 'MovingObstacle', 'Box', 'Telepod', 'Beacon'], 'colors': list(COLORS),
            'via_factory': record['run'] % 2 == 0,
        }
        for k in ('nest', 'nest2'):
            if record.get(k):
                spec[k] = record[k]
                ctx.probe('knob:nested_chain' if k == 'nest' else 'knob:two_nested_chains')
        self.envs = {}
        self.spec = spec
        self.sim = Sim({'clients': [], 'ops': [], 'property': PROP}, ctx, [])

    def env_for(self, world):
        """one GridWorld per grid shape (the state space fixes the shape)"""
        from gvsim.sim import Client

        key = (world['h'], world['w'])
        if key not in self.envs:
            spec = dict(self.spec, world=world)
            self.envs[key] = Client(len(self.envs), spec, self.sim)
        return self.envs[key]

    def mk_rng(self, mode, seed, script=None):
        if mode == 'real':
            return np.random.default_rng(seed)
        return ScriptedRng(seed, mode, script)

    def judge(self, complog, site_prefix=''):
        for (name, before, after, _) in complog:
            if name == 'move_obstacles':
                if not check_obstacles(self.sim, before, after, site_prefix + 'move_obstacles'):
                    return False
            elif name == 'teleport':
                if not check_teleport(self.sim, before, after, site_prefix + 'teleport'):
                    return False
        return True

    def step(self, world, k, rng):
        cl = self.env_for(world)
        inject_rng(cl.env, rng)
        s0 = mk_state(world)
        cl.complog.clear()
        from gym_gridverse import rng as gvrng

        g0 = gvrng.get_gv_rng().bit_generator.state
        r = sut(cl.env.functional_step, s0, action_of(ACTIONS[k % 8]))
        if gvrng.get_gv_rng().bit_generator.state != g0:
            self.sim.violate('stochastic', 'drew_from_library_generator', 'functional_step', '-', 'library-level generator advanced although the environment owns a generator')
        return cl, r, list(cl.complog)

    def run(self):
        rec, ctx, sim = self.rec, self.ctx, self.sim
        worlds = rec['worlds']
        for i, op in enumerate(rec['ops']):
            sim.op_index = i
            ctx.ticks += 1
            ctx.log('OP', i, op)
            kind = op[0]
            if kind == 'step':
                _, wi, k, mode, s = op
                world = worlds[wi % len(worlds)]
                cl, r, complog = self.step(world, k, self.mk_rng(mode, s))
                ctx.log('step', repr(r) if isinstance(r, Raised) else world_of(r[0])['agent'])
                if isinstance(r, Raised):
                    ctx.count('sut_exception')
                    continue
                self.judge(complog)
                ctx.fault('scripted_' + mode) if mode != 'real' else ctx.count('real_seeded_steps')
            elif kind == 'force':
                _, wi, k, s = op
                self.force(worlds[wi % len(worlds)], k, s)
            elif kind == 'direct':
                _, which, wi, k, mode, s = op
                self.direct(which, worlds[wi % len(worlds)], k, mode, s)

    def direct(self, which, world, k, mode, s):
        from gym_gridverse.envs.transition_functions import transition_function_registry as reg

        sim = self.sim
        st = mk_state(world)
        before = world_of(st)
        rng = None if mode == 'none' else self.mk_rng(mode, s)
        r = sut(reg[which], st, action_of(ACTIONS[k % 8]), rng=rng)
        self.ctx.log('direct', which, repr(r) if isinstance(r, Raised) else world_of(st)['agent'])
        if isinstance(r, Raised):
            self.ctx.count('sut_exception')
            return
        after = world_of(st)
        (check_obstacles if which == 'move_obstacles' else check_teleport)(sim, before, after, 'direct:' + which)
        self.ctx.count('direct_calls')

    def force(self, world, k, s):
        """re-execute the same step for every resolution of its random choices"""
        sim, ctx = self.sim, self.ctx
        base = ScriptedRng(s, 'uniform')
        cl, r, complog = self.step(world, k, base)
        if isinstance(r, Raised):
            ctx.count('sut_exception')
            return
        if not self.judge(complog, 'forced:'):
            return
        # every single-index draw is a choice point, whichever sampling call the library uses
        points = []
        for (m, d, o) in base.log:
            if m == 'choice':
                points.append((m, d, o))
            elif m == 'integers':
                points.append((m, d[1] - d[0], o - d[0]))
            else:
                ctx.count('force_skipped_other_draws')
                return
        if not points:
            return
        domains = [d for (_, d, _) in points]
        total = 1
        for d in domains:
            total *= d
        combos = []
        if total <= 200:
            combos = list(itertools.product(*[range(d) for d in domains]))
            exhaustive = True
        else:
            exhaustive = False
            b = [o for (_, _, o) in points]
            for j, d in enumerate(domains):
                for v in range(d):
                    combos.append(tuple(b[:j] + [v] + b[j + 1:]))
        finals = []
        for combo in combos:
            rng = ScriptedRng(s, 'first', script=list(combo))
            cl, r2, complog2 = self.step(world, k, rng)
            ctx.fault('forced_outcome')
            if isinstance(r2, Raised):
                ctx.count('sut_exception')
                continue
            if not self.judge(complog2, 'forced:'):
                return
            finals.append((combo, complog2))
        ctx.log('force', len(combos), exhaustive)
        if not exhaustive:
            return
        # destination-set claims over the whole support
        chain = self.rec['chain']
        for idx, name in enumerate(chain):
            if name == 'teleport':
                befores = {_k(cl2[idx][1]) for _, cl2 in finals if len(cl2) == len(chain)}
                if len(befores) != 1:
                    continue  # the teleport input itself depends on earlier random outcomes
                before = finals[0][1][idx][1]
                partners = M.telepod_partners(before)
                if partners:
                    dests = {tuple(cl2[idx][2]['agent'][:2]) for _, cl2 in finals}
                    if dests != set(partners):
                        sim.violate('stochastic', 'teleport_support', 'forced:teleport', f'{len(dests)}_of_{len(partners)}', f'destinations over all outcomes {sorted(dests)} != partners {sorted(partners)}')
                        return
                    ctx.probe('teleport_support_checked')
            elif name == 'move_obstacles':
                befores = {_k(cl2[idx][1]) for _, cl2 in finals if len(cl2) == len(chain)}
                if len(befores) != 1:
                    continue
                before = finals[0][1][idx][1]
                obs = M.obstacles(before)
                for o in obs:
                    if any(p != o and abs(p[0] - o[0]) + abs(p[1] - o[1]) <= 2 for p in obs):
                        continue  # not isolated: its options depend on the turn order
                    free = {q for q in M.neighbours4(before, *o) if before['cells'][q[0]][q[1]][0] == 'Floor'}
                    want = free if free else {o}
                    got = set()
                    for _, cl2 in finals:
                        after = cl2[idx][2]
                        got |= {q for q in (free | {o}) if after['cells'][q[0]][q[1]][0] == 'MovingObstacle'}
                    if got != want:
                        sim.violate('stochastic', 'obstacle_support', 'forced:move_obstacles', f'{len(got)}_of_{len(want)}', f'isolated obstacle at {o}: destinations over all outcomes {sorted(got)} != free neighbours {sorted(want)} on {_show(before)}')
                        return
                    ctx.probe('obstacle_support_checked' + ('_boxed_in' if not free else ''))


def _k(w):
    from gvsim.lib import wkey

    return wkey(w)


def execute(record, ctx):
    common.probe_knobs(record, ctx)
    Runner(record, ctx).run()
    hits = ctx.stats.get('probe:obstacle_moved', 0) + ctx.stats.get('probe:teleport_fired', 0)
    if hits > 0 and ctx.fired > 0:
        ctx.distinct.add(ctx.trace_digest())
    ctx.sample = {'chain': record['chain'], 'layout0': _show(record['worlds'][0]), 'agent0': record['worlds'][0]['agent'], 'ops_head': record['ops'][:8]}


def simplify(record):
    import copy

    from gvsim.worlds import simplify_world

    for i in range(len(record['worlds'])):
        if len(record['worlds']) > 1:
            r2 = copy.deepcopy(record)
            del r2['worlds'][i]
            yield r2
    if len(record['chain']) > 1:
        for i in range(len(record['chain'])):
            r2 = copy.deepcopy(record)
            del r2['chain'][i]
            yield r2
    for i, w in enumerate(record['worlds']):
        for wv in simplify_world(w):
            r2 = copy.deepcopy(record)
            r2['worlds'][i] = wv
            yield r2
