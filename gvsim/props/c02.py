"""C02 - seeded environments are reproducible and isolated from every global RNG
(engine: gvsim.sim, profile `isolation`).

Two kinds of run:
  interleave - 2-4 clients (some of them twins) + adversary, scheduled op by op; afterwards every
               client is re-executed solo (clean globals, debug flag flipped) and must have produced
               the same history; global generators are compared around every client op.
  restart    - a batch of clients executed solo in-process and again in fresh interpreters under
               other PYTHONHASHSEED values ("crash and restart": an episode is reproducible from
               configuration, seed and actions alone).
"""
import json
import os
import random
import subprocess
import sys

import numpy as np

from gvsim import worlds as W
from gvsim.bootstrap import VERIF, HarnessError
from gvsim.kernel import derive, stream
from gvsim.lib import action_of, state_key, sha
from gvsim.props import common
from gvsim.sim import Raised, Sim, sut

PROP = 'C02'
TIERS = {'quick': {'runs': 1200, 'wall': 120, 'chunk': 20}, 'thorough': {'runs': 30000, 'wall': 1500, 'chunk': 25}}
REACH = ['reseed_gv', 'np_draw', 'py_seed', 'debug_flip', 'cache_pressure', 'restart_fresh_interpreter', 'twin_pair', 'reseeded_vs_fresh', 'stochastic_draw', 'numeric_representation_in_history', 'functional_rollout_on_foreign_states', 'sampling_helpers_on_persistent_sequences', 'numpy_integer_seed']  # probes / faults that must fire in every batch (reach gaps are reported in the evidence)
RULE = ('interleave runs: 2-4 live environments (all shipped configurations, coin_env, random compositions containing '
        'every stochastic component and every random reset; twins with equal configuration, seed and actions) whose '
        'operations a seeded scheduler interleaves with an adversary that reseeds / draws from / clears every '
        'process-global source (library generator, numpy legacy state, random, debug flag, caches); restart runs: the '
        'same episodes re-executed in fresh interpreters under other PYTHONHASHSEED values; distinct = executed-trace '
        'digest; non-trivial = >= 10 ops, >= 1 adversary fault fired and >= 1 stochastic draw by a client')
REAL = common.REAL_SIM + ['fresh CPython interpreters with other PYTHONHASHSEED values (restart runs)', 'examples/coin_env (custom components)']
STUB = common.STUB_SIM
ASSUMPTIONS = ['environment construction from YAML draws from the library generator before any seed exists; that is not judged',
               'interleaving granularity is one public API call']

RESTART_EVERY = 20  # one run in RESTART_EVERY is a restart run
YAMLS = W.SHIPPED + ['examples/coin_env.yaml']


def reset_client(r, name=None):
    """hand-assembled client around a built-in (random) reset function (fixed simple composition)"""
    return W.gen_reset_client(r, name, random_composition=False)


def gen_client(r, run):
    m = r.random()
    if m < 0.45:
        return {'kind': 'yaml', 'yaml': r.choice(YAMLS), 'env_seed': W.gen_seed(r)}
    if m < 0.75:
        return reset_client(r)
    spec = W.gen_hand_client(r, hmax=6, wmax=6, n_pool=0, valid_start=True)
    for must in ('move_obstacles', 'teleport'):
        if must not in spec['chain'] and r.random() < 0.5:
            spec['chain'].append(must)
    if r.random() < 0.6:
        spec['obs']['name'] = 'stochastic_raytracing'
    return spec


def seed_op(r):
    """a set_seed op; one time in five the seed arrives as a numpy integer (child seeds from SeedSequence.generate_state,
    seeds drawn with rng.integers, seeds read from an array)"""
    s = W.gen_seed(r)
    if r.random() < 0.2:
        kind = r.choice(['int64', 'uint32', 'uint64'])
        if (kind == 'uint32' and s >= 2**32) or (kind == 'int64' and s >= 2**63):
            kind = 'uint64'
        return ['set_seed', s, kind]
    return ['set_seed', s]


def client_ops(r, n):
    ops = [seed_op(r), ['reset']]
    while len(ops) < n:
        m = r.random()
        if m < 0.6:
            ops.append(['step', r.randrange(64)])
        elif m < 0.85:
            ops.append(['read_obs', r.choice([1, 1, 2])])
        elif m < 0.90:
            ops.append(['reset'])
        elif m < 0.915:
            # user code (a custom reset function, say) calling the sampling helpers on lists that outlive the call
            ops.append(['helper_probe', r.randrange(2**31), r.randint(2, 9)])
        elif m < 0.94:
            # a planner: functional calls on states that are not the environment's own state object
            ops.append(['plan', r.randrange(4), r.randrange(1 << 16), r.randint(1, 4)])
        else:
            ops.append(seed_op(r))
            if r.random() < 0.6:
                ops.append(['reset'])  # a used environment, given a seed again and reset (compared with a fresh one)
    return ops


def adv_op(r):
    k = r.choice(['reseed_gv', 'draw_gv', 'np_seed', 'np_draw', 'py_seed', 'py_draw', 'debug', 'clear_caches', 'cache_pressure'])
    if k in ('reseed_gv', 'np_seed', 'py_seed'):
        return ['adv', k, r.randrange(2**31)]
    if k in ('draw_gv', 'np_draw', 'py_draw'):
        return ['adv', k, r.randint(1, 5)]
    if k == 'debug':
        return ['adv', k, r.random() < 0.5]
    if k == 'cache_pressure':
        return ['adv', k, r.randint(3, 12), r.randrange(1000)]
    return ['adv', k]


def generate(seed, run, tier):
    r = stream(seed, PROP, run, 'gen')
    rec = common.base_record(PROP, seed, run, tier)
    rec['debug'] = r.random() < 0.5
    big = tier == 'thorough'
    if run % RESTART_EVERY == 0:
        rec['mode'] = 'restart'
        k = run // RESTART_EVERY
        clients = []
        # walk through all shipped configurations systematically, plus random-reset compositions
        for j in range(4):
            clients.append({'kind': 'yaml', 'yaml': YAMLS[(k * 4 + j) % len(YAMLS)], 'env_seed': W.gen_seed(r)})
        names = ['memory', 'memory_rooms', 'rooms', 'keydoor', 'crossing', 'teleport', 'dynamic_obstacles', 'empty']
        for j in range(3):
            clients.append(reset_client(r, names[(k * 3 + j) % len(names)]))
        for j, cspec in enumerate(clients):
            # what a gym user sees: the numeric representations of states and observations are part of the history
            cspec['outer'] = ['compact', 'default', 'no-overlap'][(k + j) % 3]
        rec['clients'] = clients
        ops = []
        for c in range(len(clients)):
            for o in client_ops(stream(seed, PROP, run, f'ops{c}'), r.randint(15, 40)):
                ops.append([c] + o)
        rec['ops'] = ops
        rec['hash_seeds'] = ['1', str(r.randrange(2, 4000000000))] + (['2', str(r.randrange(2, 4000000000))] if big else [])
        return rec
    rec['mode'] = 'interleave'
    ncl = r.choice([2, 2, 3, 4])
    clients, lists = [], []
    twin_of = {}
    for c in range(ncl):
        if c > 0 and r.random() < 0.5:
            src = r.randrange(c)
            src = twin_of.get(src, src)
            twin_of[c] = src
            clients.append(json.loads(json.dumps(clients[src])))
            lists.append([list(o) for o in lists[src]])
        else:
            clients.append(gen_client(r, run))
            if r.random() < 0.3:
                clients[-1]['outer'] = r.choice(['compact', 'default', 'no-overlap'])
            lists.append(client_ops(stream(seed, PROP, run, f'ops{c}'), r.randint(15, 50 if not big else 120)))
    rec['clients'] = clients
    rec['twin_of'] = {str(k): v for k, v in twin_of.items()}
    # the scheduler: seeded interleaving of the clients' own lists and the adversary
    sched = stream(seed, PROP, run, 'schedule')
    advr = stream(seed, PROP, run, 'adversary')
    cursors = [0] * ncl
    ops = []
    p_adv = sched.choice([0.0, 0.15, 0.3])
    while any(cursors[c] < len(lists[c]) for c in range(ncl)):
        if sched.random() < p_adv:
            ops.append(adv_op(advr))
            continue
        live = [c for c in range(ncl) if cursors[c] < len(lists[c])]
        c = sched.choice(live)
        burst = sched.choice([1, 1, 1, 2, 5])
        for _ in range(burst):
            if cursors[c] < len(lists[c]):
                ops.append([c] + lists[c][cursors[c]])
                cursors[c] += 1
    rec['ops'] = ops
    return rec


# ------------------------------------------------------------------ execution


class Tripwire:
    """stands in for the library-level generator; records who touches it, then delegates"""

    def __init__(self, real):
        object.__setattr__(self, '_real', real)
        object.__setattr__(self, 'touched', [])

    def __getattr__(self, name):
        import traceback

        site = 'unknown'
        for f in reversed(traceback.extract_stack()[:-1]):
            if 'gym_gridverse' in f.filename:
                site = f'{f.filename.rsplit("/", 1)[-1][:-3]}.{f.name}'
                break
        self.touched.append((name, site))
        return getattr(self._real, name)


def globals_digest():
    from gym_gridverse import rng as gvrng

    g = gvrng.get_gv_rng()
    real = object.__getattribute__(g, '_real') if isinstance(g, Tripwire) else g
    st = real.bit_generator.state
    np_state = np.random.get_state()
    return (
        sha((st['state']['state'], st['state']['inc'], st['has_uint32'], st['uinteger'])),
        sha((np_state[0], np_state[1].tolist(), np_state[2], np_state[3], np_state[4])),
        sha(list(random.getstate()[1])),
    )


class IsoSim(Sim):
    def __init__(self, record, ctx, judge_globals=True, tripwire=False):
        super().__init__(record, ctx, [])
        self.judge_globals = judge_globals
        self.tw = None
        if tripwire:
            from gym_gridverse import rng as gvrng

            self.tw = Tripwire(gvrng.get_gv_rng())
            gvrng._gv_rng = self.tw

    def close(self):
        if self.tw is not None:
            from gym_gridverse import rng as gvrng

            gvrng._gv_rng = object.__getattribute__(self.tw, '_real')

    def adv_reseed_gv(self, s):
        super().adv_reseed_gv(s)
        if self.tw is not None:
            from gym_gridverse import rng as gvrng

            self.tw = Tripwire(gvrng.get_gv_rng())
            gvrng._gv_rng = self.tw

    def emit(self, hook, *a):
        if hook == 'after_op':
            a[0].meta['n_ops'] = a[0].meta.get('n_ops', 0) + 1

    def _around(self, cl, name, f):
        g0 = globals_digest() if self.judge_globals else None
        n0 = len(self.tw.touched) if self.tw else 0
        out = f()
        if self.judge_globals:
            g1 = globals_digest()
            if g1 != g0:
                which = '+'.join(n for n, a, b in zip(('library_generator', 'numpy_global', 'python_random'), g0, g1) if a != b)
                who = self.tw.touched[n0][1] if self.tw and len(self.tw.touched) > n0 else cl.mspec.get('reset', {}).get('name', '-') if name == 'reset' else name
                self.violate('isolation', 'global_source_perturbed', which, who, f'{name} of a seeded environment changed {which}')
            elif self.tw and len(self.tw.touched) > n0:
                self.violate('isolation', 'library_generator_touched', 'library_generator', self.tw.touched[n0][1], f'{name} touched the library generator: {self.tw.touched[n0]}')
        return out

    def _reps(self, cl):
        """representation objects of a client that asks for numeric histories (built once, after the spaces exist)"""
        if 'reps' not in cl.meta:
            from gym_gridverse.representations.observation_representations import make_observation_representation
            from gym_gridverse.representations.state_representations import make_state_representation

            name = cl.spec['outer']
            srep = sut(make_state_representation, name, cl.env.state_space)
            orep = sut(make_observation_representation, name, cl.env.observation_space)
            cl.meta['reps'] = (None if isinstance(srep, Raised) else srep, None if isinstance(orep, Raised) else orep)
        return cl.meta['reps']

    def _numeric(self, cl, which, value):
        """digest of the numeric representation of a state / observation (or how converting it failed)"""
        if not cl.spec.get('outer'):
            return ()
        rep = self._reps(cl)[0 if which == 'state' else 1]
        if rep is None:
            return ('norep',)
        arr = sut(rep.convert, value)
        if isinstance(arr, Raised):
            return ('raised', arr.type)
        self.ctx.probe('numeric_representation_in_history')
        return (sha({k: [str(np.asarray(v).dtype), np.asarray(v).tolist()] for k, v in sorted(arr.items())}),)

    def _hist(self, cl, *items):
        cl.history.append(items + (cl.rng_state(),))
        cl.meta.setdefault('hist_op', []).append(cl.meta.get('n_ops', 0))
        self.ctx.log('h', cl.idx, items)

    def op_set_seed(self, cl, seed, kind='int'):
        value = seed
        if kind != 'int':
            value = getattr(np, kind)(seed)
            self.ctx.probe('numpy_integer_seed')
        self._around(cl, 'set_seed', lambda: cl.env.set_seed(value))
        self._hist(cl, 'seed', seed, kind)

    def op_reset(self, cl):
        r = self._around(cl, 'reset', lambda: sut(cl.env.reset))
        if isinstance(r, Raised):
            self.ctx.count('sut_exception')
            self._hist(cl, 'reset', 'raised', r.type)
            return
        cl.started = True
        k = state_key(cl.env.state)
        self.ctx.state(k)
        self._hist(cl, 'reset', sha(k), *self._numeric(cl, 'state', cl.env.state))

    def op_step(self, cl, k):
        if not cl.started:
            return
        a = action_of(cl.actions[k % len(cl.actions)])
        g0 = cl.rng_state()
        r = self._around(cl, 'step', lambda: sut(cl.env.step, a))
        if isinstance(r, Raised):
            self.ctx.count('sut_exception')
            self._hist(cl, 'step', a.name, 'raised', r.type)
            return
        if cl.rng_state() != g0:
            self.ctx.probe('stochastic_draw')
        sk = state_key(cl.env.state)
        self.ctx.state(sk)
        self._hist(cl, 'step', a.name, sha(sk), repr(float(r[0])), bool(r[1]), *self._numeric(cl, 'state', cl.env.state))

    def op_helper_probe(self, cl, s, n):
        """the sampling helpers of gym_gridverse.rng with an explicit generator: the answer is a function of the generator
        state and the sequence, the caller's sequence is left alone (it may be a configuration value shared by several
        environments), and no global source is touched"""
        from gym_gridverse import rng as gvrng

        self.ctx.fault('sampling_helpers_on_persistent_sequences')
        data = [f'v{j}' for j in range(n)]
        for name, call in (('choice', lambda g, d: gvrng.choice(g, d)), ('choices', lambda g, d: gvrng.choices(g, d, size=max(1, n // 2), replace=False)),
                           ('shuffle', lambda g, d: gvrng.shuffle(g, d))):
            before = list(data)
            a = self._around(cl, 'rng.' + name, lambda: sut(call, gvrng.make_rng(s), data))
            if data != before:
                self.violate('isolation', 'helper_modified_callers_sequence', 'rng.' + name, '-', f'rng.{name} left the sequence it was given as {data} (was {before})')
                return
            b = sut(call, gvrng.make_rng(s), data)
            if isinstance(a, Raised) or isinstance(b, Raised) or a != b:
                self.violate('isolation', 'helper_not_reproducible', 'rng.' + name, '-', f'rng.{name} with equally seeded generators: {a!r} vs {b!r}')
                return
            self._hist(cl, 'helper', name, sha([str(x) for x in (a if isinstance(a, list) else [a])]))

    def op_plan(self, cl, start, k, n):
        """the functional interface on states that are not the environment's live state object: a rebuilt copy of
        the current state, or a functional reset, then a short roll-out; everything answered is part of the history"""
        if not cl.started:
            return
        from gvsim.lib import mk_state, world_of

        self.ctx.fault('functional_rollout_on_foreign_states')
        if start % 2 == 0:
            S = mk_state(world_of(cl.env.state))
        else:
            S = self._around(cl, 'functional_reset', lambda: sut(cl.env.functional_reset))
            if isinstance(S, Raised):
                self._hist(cl, 'freset', 'raised', S.type)
                return
            self._hist(cl, 'freset', sha(state_key(S)))
        for j in range(n + 1):
            S0 = S
            o = self._around(cl, 'functional_observation', lambda: sut(cl.env.functional_observation, S0))
            if isinstance(o, Raised):
                self._hist(cl, 'fobs', 'raised', o.type)
                return
            self._hist(cl, 'fobs', sha(state_key(o)), *self._numeric(cl, 'obs', o))
            if j == n:
                break
            a = action_of(cl.actions[(k >> (3 * j)) % len(cl.actions)])
            r = self._around(cl, 'functional_step', lambda: sut(cl.env.functional_step, S0, a))
            if isinstance(r, Raised):
                self._hist(cl, 'fstep', a.name, 'raised', r.type)
                return
            S = r[0]
            self._hist(cl, 'fstep', a.name, sha(state_key(S)), repr(float(r[1])), bool(r[2]))

    def op_read_obs(self, cl, n):
        if not cl.started:
            return
        g0 = cl.rng_state()
        for _ in range(n):
            o = self._around(cl, 'observation', lambda: sut(lambda: cl.env.observation))
            if isinstance(o, Raised):
                self.ctx.count('sut_exception')
                self._hist(cl, 'obs', 'raised', o.type)
                return
            self._hist(cl, 'obs', sha(state_key(o)), *self._numeric(cl, 'obs', o))
        if cl.rng_state() != g0:
            self.ctx.probe('stochastic_draw')


def _what(spec):
    """the reset function behind a client (violation site)"""
    if spec.get('yaml'):
        from gvsim.sim import load_yaml_data

        return 'reset:' + load_yaml_data(spec['yaml'])['reset_function']['name'].split(':')[-1]
    return 'reset:' + spec['reset']['name'] if spec.get('reset') else 'free_form_world'


def first_diff(a, b):
    for i, (x, y) in enumerate(zip(a, b)):
        if x != y:
            if x[:-1] == y[:-1]:
                return i, 'generator_state', x[0]
            return i, 'history', x[0]
    if len(a) != len(b):
        return min(len(a), len(b)), 'length', '-'
    return None


def solo_record(record, c, flip_debug):
    rec = dict(record)
    rec['clients'] = [record['clients'][c]]
    rec['ops'] = [[0] + list(o[1:]) for o in record['ops'] if o[0] == c]
    rec['debug'] = (not record.get('debug', True)) if flip_debug else record.get('debug', True)
    rec['run'] = record['run'] * 1000 + 7 + c  # other derived global seeds: the history must not depend on them
    return rec


def solo_history(record, c, flip_debug, ctx):
    from gvsim.kernel import Ctx, prepare_globals

    rec = solo_record(record, c, flip_debug)
    prepare_globals(rec)
    sctx = Ctx(rec)
    sim = IsoSim(rec, sctx, judge_globals=False)
    sim.run()
    ctx.ticks += sctx.ticks
    return sim.clients[0].history


def histories_for_child(record):
    """what a child interpreter computes: the solo history digest of every client"""
    from gvsim.kernel import Ctx

    ctx = Ctx(record)
    out = []
    for c in range(len(record['clients'])):
        h = solo_history(record, c, False, ctx)
        out.append([sha(list(map(list, h))), [sha(list(x)) for x in h], [x[0] for x in h]])
    return out


def execute(record, ctx):
    from gvsim.kernel import prepare_globals

    ncl = len(record['clients'])
    if record.get('mode') == 'restart':
        mine = histories_for_child(record)
        prepare_globals(record)

        def child(hs):
            env = dict(os.environ, PYTHONHASHSEED=hs)
            p = subprocess.run([sys.executable, os.path.join(VERIF, 'check.py'), '_c02child'], input=json.dumps(record),
                               capture_output=True, text=True, env=env, timeout=600)
            try:
                out = json.loads(p.stdout.strip().splitlines()[-1])
            except Exception:  # noqa: BLE001
                raise HarnessError(f'restart child failed: {p.stdout[-300:]} {p.stderr[-1500:]}')
            ctx.fault('restart_fresh_interpreter')
            ctx.ticks += len(record['ops'])
            return out

        def compare(a, b, code, hs):
            for c in range(ncl):
                if a[c][0] != b[c][0]:
                    i = next((j for j, (x, y) in enumerate(zip(a[c][1], b[c][1])) if x != y), -1)
                    what = _what(record['clients'][c])
                    opn = a[c][2][i] if 0 <= i < len(a[c][2]) else 'length'
                    ctx.violate('isolation', code, what, f'first_difference_at_{opn}', -1,
                                f'client {c} ({what}) has a different history under PYTHONHASHSEED={hs} (first differing op #{i}: {opn})')
                    return False
            return True

        # the reference is a fresh interpreter with a FIXED hash seed, so that the verdict (and its replay) does not
        # depend on the hash seed of the process running the check; this process is compared with a fresh interpreter
        # under its own hash seed (a warm process must agree with a cold one)
        ref = child('0')
        own = os.environ.get('PYTHONHASHSEED', '')
        if own.isdigit():
            compare(mine, ref if own == '0' else child(own), 'differs_from_fresh_interpreter_with_same_hash_seed', own)
        for hs in record['hash_seeds']:
            compare(ref, child(hs), 'differs_across_interpreters', hs)
            ctx.log('restart', hs, [m[0] for m in ref])
        if ctx.fired:
            ctx.distinct.add(ctx.trace_digest())
        ctx.sample = {'mode': 'restart', 'clients': [c.get('yaml') or c.get('reset') or 'free-form' for c in record['clients']], 'hash_seeds': record['hash_seeds']}
        return
    # ---- interleave
    sim = IsoSim(record, ctx, judge_globals=True, tripwire=(record['run'] % 3 == 0))
    try:
        sim.run()
    finally:
        sim.close()
    sim.op_index = len(record['ops'])
    hist = [cl.history for cl in sim.clients]
    for c, src in sorted((int(k), v) for k, v in record.get('twin_of', {}).items()):
        if c < ncl and src < ncl:
            ctx.probe('twin_pair')
            d = first_diff(hist[c], hist[src])
            if d is not None:
                ctx.violate('isolation', 'twins_diverge', d[1], d[2], -1, f'clients {src} and {c} (same configuration, seed, actions) differ at their op #{d[0]}')
                break
    for c in range(ncl):
        for flip in (False, True):
            solo = solo_history(record, c, flip, ctx)
            d = first_diff(hist[c], solo)
            if d is not None:
                spec = record['clients'][c]
                what = _what(spec)
                ctx.violate('isolation', 'differs_from_solo' + ('_debug_flipped' if flip else ''), d[1], d[2], -1,
                            f'client {c} ({what}) interleaved differs from its solo re-execution at its op #{d[0]}')
                break
    # a used environment that is given a seed again and reset must behave like a fresh environment given that seed
    for c in range(ncl):
        own = [o for o in record['ops'] if o[0] == c]
        js = [j for j, o in enumerate(own) if o[1] == 'set_seed' and j >= 2 and j + 1 < len(own) and own[j + 1][1] == 'reset']
        if not js:
            continue
        j = js[-1]
        rec2 = solo_record(record, c, False)
        rec2['ops'] = rec2['ops'][j:]
        from gvsim.kernel import Ctx

        prepare_globals(rec2)
        sctx = Ctx(rec2)
        fresh = IsoSim(rec2, sctx, judge_globals=False)
        fresh.run()
        ctx.ticks += sctx.ticks
        ctx.probe('reseeded_vs_fresh')
        hop = sim.clients[c].meta.get('hist_op', [])
        tail = [e for e, k in zip(hist[c], hop) if k >= j]
        d = first_diff(tail, fresh.clients[0].history)
        if d is not None:
            ctx.violate('isolation', 'reseeded_environment_differs_from_fresh', d[1], d[2], -1,
                        f'client {c} ({_what(record["clients"][c])}): after set_seed + reset on a used environment its history differs from a fresh environment given the same seed (history entry #{d[0]} after the seed)')
            break
    prepare_globals(record)
    if ctx.ticks >= 10 and ctx.fired > 0 and ctx.stats.get('probe:stochastic_draw'):
        ctx.distinct.add(ctx.trace_digest())
    ctx.sample = {'mode': 'interleave', 'clients': [c.get('yaml') or (c.get('reset') or {}).get('name') or 'free-form' for c in record['clients']],
                  'twin_of': record.get('twin_of'), 'schedule_head': [[o[0], o[1]] for o in record['ops'][:20]], 'n_ops': len(record['ops'])}


def simplify(record):
    import copy

    if record.get('mode') == 'restart':
        for c in range(len(record['clients'])):
            r2 = copy.deepcopy(record)
            r2['ops'] = [o for o in r2['ops'] if o[0] != c]
            if len(r2['ops']) < len(record['ops']):
                yield r2
        if len(record['hash_seeds']) > 1:
            for i in range(len(record['hash_seeds'])):
                r2 = copy.deepcopy(record)
                del r2['hash_seeds'][i]
                yield r2
    else:
        r2 = copy.deepcopy(record)
        r2['ops'] = [o for o in r2['ops'] if o[0] != 'adv']
        if len(r2['ops']) < len(record['ops']):
            yield r2
