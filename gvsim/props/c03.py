"""C03 - the functional interface is pure, alias-free and history-independent
(engine: gvsim.sim, profile `purity`)."""
from gvsim import model as M
from gvsim import worlds as W
from gvsim.kernel import stream
from gvsim.lib import action_of, mk_obj, mk_state, state_key, world_of, wkey
from gvsim.props import common
from gvsim.props.c04 import _fault as _adv_or_bad
from gvsim.sim import Raised, Sim, sut

PROP = 'C03'
TIERS = {'quick': {'runs': 2000, 'wall': 100}, 'thorough': {'runs': 50000, 'wall': 1500}}
REACH = ['caller_mutation_input', 'caller_mutation_output', 'clear_caches', 'cache_pressure', 'reasked', 'copy_probe', 'knob:near_duplicate_states', 'knob:view_covers_grid']  # probes / faults that must fire in every batch (reach gaps are reported in the evidence)
RULE = ('one run = 1-3 clients over compositions containing every built-in transition / reward / termination / '
        'observation component (nested boxes, held items, doors in all statuses) under a seeded op list of functional '
        'steps, observations, direct component and transition_with_copy calls; faults: caller mutation of inputs and '
        'outputs (move agent, change held item, assign cell, flip door, replace box content), cache clearing and '
        'eviction pressure, foreign-client calls, debug flips; a question bank re-asks every deterministic question '
        'later in the run; distinct = executed-trace digest; non-trivial = >= 10 ops, >= 1 fault fired and >= 1 '
        're-asked question')
REAL = common.REAL_SIM
STUB = common.STUB_SIM
ASSUMPTIONS = ['observation cells aliasing the state\'s cell objects is not judged (the statement constrains next states)',
               'objects returned from the memo caches are never mutated by the simulated caller',
               'sharing of attribute-less objects (Floor, Wall, MovingObstacle instances), enum members and frozen Position values is not judged']

STATELESS = ('Floor', 'Wall', 'MovingObstacle', 'Hidden', 'NoneGridObject')


def generate(seed, run, tier):
    r = stream(seed, PROP, run, 'gen')
    rec = common.base_record(PROP, seed, run, tier)
    rec['debug'] = r.random() < 0.5
    big = tier == 'thorough'
    ncl = r.choice([1, 1, 2, 3])
    clients = []
    for _ in range(ncl):
        if r.random() < 0.25:
            spec = W.gen_yaml_client(r)
        else:
            spec = W.gen_hand_client(r, hmax=6, wmax=6, n_pool=4)
            if r.random() < 0.4 and spec['unique'] is not None:
                spec['rewards'].append({'name': 'getting_closer_shortest_path', 'object_type': spec['unique']})
            if r.random() < 0.4:
                spec['obs']['name'] = r.choice(['raytracing', 'partially_occluded'])
                if spec['obs']['area'][0][1] != 0:
                    spec['obs']['area'][0] = [spec['obs']['area'][0][0] - spec['obs']['area'][0][1], 0]
        if spec['kind'] == 'hand' and 'Door' in spec['types']:
            from gvsim.props.c10 import plant_door_scene

            for wv in [spec['world']] + spec['pool_worlds']:
                if r.random() < 0.5:
                    plant_door_scene(r, wv, spec['colors'], spec['unique'], spec['types'])
            if 'actuate_door' not in spec['chain'] and r.random() < 0.7:
                spec['chain'].append('actuate_door')
            if 'ACTUATE' not in spec['actions']:
                spec['actions'].append('ACTUATE')
        clients.append(spec)
    rec['clients'] = clients
    ops = []
    for c in range(ncl):
        ops.append([c, 'reset'])
    n = r.randint(30, 100 if not big else 300)
    while len(ops) < n:
        c = r.randrange(ncl)
        m = r.random()
        if m < 0.25:
            ops.append([c, 'ask', r.choice(['fstep', 'fstep', 'fobs', 'reward', 'term']), r.randrange(64), r.randrange(64), r.randrange(64), r.randrange(2**31)])
        elif m < 0.40:
            # between a question and its repeat: foreign calls and cache faults
            ops.append(['adv', r.choice(['clear_caches', 'clear_caches', 'debug']), ] if r.random() < 0.5 else ['adv', 'cache_pressure', r.randint(11, 14), r.randrange(1000)])
            if ops[-1][1] == 'debug':
                ops[-1].append(r.random() < 0.5)
            ops.append([c, 'reask', r.randrange(64)])
        elif m < 0.55:
            ops.append([c, 'reask', r.randrange(64)])
        elif m < 0.70:
            ops.append([c, 'mutate_probe', r.randrange(64), r.randrange(64), r.choice(['output', 'input']), r.randrange(2**31)])
        elif m < 0.80:
            ops.append([c, 'fstep', r.randrange(64), r.randrange(64)])
        elif m < 0.86:
            ops.append([c, 'twc', r.randrange(64), r.randrange(64)])
        elif m < 0.92:
            ops.append([c, 'copy_probe', r.randrange(64)])
        elif m < 0.96:
            ops.append([c, 'step', r.randrange(64)])
        else:
            ops.append([c, 'fobs', r.randrange(64)])
    for c in range(ncl):
        ops.append(['adv', 'clear_caches'])
        for _ in range(3):
            ops.append([c, 'reask', r.randrange(64)])
    rec['ops'] = ops
    return rec


# ------------------------------------------------------------------ identity graphs


def stateful_nodes(s):
    """ids of the mutable components of a state (kept alive by `s`)"""
    out = {}
    g = s.grid
    out[id(g)] = 'Grid'
    out[id(g.objects)] = 'Grid.objects'
    for row in g.objects:
        out[id(row)] = 'row list'
        for o in row:
            _obj_nodes(o, out)
    out[id(s.agent)] = 'Agent'
    out[id(s.agent.transform)] = 'Transform'
    _obj_nodes(s.agent.grid_object, out)
    return out


def _obj_nodes(o, out):
    n = type(o).__name__
    if n in STATELESS:
        return
    out[id(o)] = n
    if n == 'Box':
        _obj_nodes(o.content, out)


def shared(s0, s1):
    a, b = stateful_nodes(s0), stateful_nodes(s1)
    return sorted({a[k] for k in a.keys() & b.keys()})


# ------------------------------------------------------------------ caller mutations


def mutations(s, r):
    """apply every kind of public mutation to state s (in place); returns the kinds applied"""
    from gym_gridverse.geometry import Orientation, Position
    from gym_gridverse.grid_object import Door, Floor, Key, Color, Wall, Box

    done = []
    h, w = s.grid.shape.height, s.grid.shape.width
    s.agent.position = Position((s.agent.position.y + 1) % h, (s.agent.position.x + 1) % w)
    s.agent.orientation = Orientation((s.agent.orientation.value + 1) % 4)
    done.append('agent_pose')
    if type(s.agent.grid_object).__name__ in ('Key', 'Exit', 'Telepod', 'Beacon', 'Door'):
        s.agent.grid_object.color = Color((s.agent.grid_object.color.value + 1) % 5)
        done.append('held_recoloured')
    s.agent.grid_object = Key(Color.BLUE)
    done.append('held_replaced')
    for y in range(h):
        for x in range(w):
            o = s.grid[y, x]
            n = type(o).__name__
            if n == 'Door':
                o.state = Door.Status((o.state.value + 1) % 3)
                done.append('door_flipped')
            elif n == 'Box':
                o.content = Wall()
                done.append('box_content_replaced')
            elif n in ('Key', 'Exit', 'Telepod', 'Beacon'):
                o.color = Color((o.color.value + 1) % 5)
                done.append('recoloured')
    y, x = r.randrange(h), r.randrange(w)
    s.grid[y, x] = Wall() if type(s.grid[y, x]).__name__ != 'Wall' else Floor()
    done.append('cell_assigned')
    return done


class PuritySim(Sim):
    def __init__(self, record, ctx):
        super().__init__(record, ctx, [])
        self.bank = []  # (client idx, kind, args..., answer)

    # -- judged on every functional step of the base engine
    def emit(self, hook, *a):
        if hook == 'on_step':
            cl, ev = a
            if ev['w0_after'] != ev['w0']:
                self.violate('purity', 'argument_modified', 'functional_step' if not ev.get('stateful') else 'step', ev['action'], 'the input state of a step was modified')
            elif not isinstance(ev['out'], Raised):
                sh = shared(ev['s0'], ev['s1'])
                if sh:
                    self.violate('purity', 'aliasing', 'functional_step', '+'.join(sh), f'input and next state share mutable components: {sh}')
                else:
                    # a user may hash any state at any time (dict / set keys): do so, it must stay harmless
                    sut(lambda: (hash(ev['s1'].grid), hash(ev['s1'].agent), hash(ev['s0'].grid)))
        elif hook == 'on_obs':
            cl, ev = a
            if ev['w_after'] != ev['w']:
                self.violate('purity', 'argument_modified', 'functional_observation', '-', 'the state was modified by observing it')

    # -- questions
    def _ask(self, cl, kind, i, k, i2, qseed):
        if not cl.pool:
            return None
        w0 = world_of(cl.pool[i % len(cl.pool)])
        a = cl.actions[k % len(cl.actions)]
        w1 = world_of(cl.pool[i2 % len(cl.pool)])
        if kind in ('reward', 'term') and not cl.proxied:
            kind = 'fstep'
        return (kind, w0, a, w1, qseed)

    def _answer(self, cl, q):
        """ask question q of client cl on fresh copies; returns a comparable answer"""
        kind, w0, a, w1, qseed = q
        s0 = mk_state(w0)
        if kind == 'fstep':
            cl.env.set_seed(qseed)
            r = sut(cl.env.functional_step, s0, action_of(a))
            ans = ('raised', r.type) if isinstance(r, Raised) else (wkey(world_of(r[0])), repr(r[1]), bool(r[2]))
        elif kind == 'fobs':
            cl.env.set_seed(qseed)
            r = sut(cl.env.functional_observation, s0)
            ans = ('raised', r.type) if isinstance(r, Raised) else wkey(world_of(r))
        else:
            s1 = mk_state(w1)
            f = cl.rparts[qseed % len(cl.rparts)] if kind == 'reward' else cl.tfun
            for w in (w0, w1):
                if not M.inside(w, w['agent'][0], w['agent'][1]):
                    return None
            r = sut(f, s0, action_of(a), s1)
            ans = ('raised', r.type) if isinstance(r, Raised) else repr(r)
            # a memoised helper must still give the history-independent (documented) value
            if not isinstance(r, Raised):
                from gvsim.props import c12

                spec = cl.mspec['rewards'][qseed % len(cl.rparts)] if kind == 'reward' else cl.mspec['term']
                if not c12.Rewards._skip(None, spec, w0, w1):
                    exp = M.reward(spec, w0, a, w1) if kind == 'reward' else M.terminal(spec, w0, a, w1)
                    if not c12.close(r, exp):
                        self.violate('purity', 'answer_depends_on_earlier_calls', kind, spec['name'], f'{spec} gave {r!r}; a history-free evaluation gives {exp!r}')
            if world_of(s1) != w1:
                self.violate('purity', 'argument_modified', kind + '_function', 'next_state', f'{kind} component modified its next_state argument')
        if world_of(s0) != w0:
            self.violate('purity', 'argument_modified', kind, 'state', f'{kind} modified its state argument')
        return ans

    def op_ask(self, cl, kind, i, k, i2, qseed):
        q = self._ask(cl, kind, i, k, i2, qseed)
        if q is None:
            return
        ans = self._answer(cl, q)
        if ans is None:
            return
        self.bank.append((cl.idx, q, ans))
        self.ctx.log('ask', cl.idx, q[0], q[2], ans if not isinstance(ans, tuple) else ans[1:])

    def op_reask(self, cl, j):
        if not self.bank:
            return
        idx, q, ans = self.bank[j % len(self.bank)]
        owner = self.clients[idx]
        again = self._answer(owner, q)
        self.ctx.probe('reasked')
        self.ctx.log('reask', idx, q[0])
        if again != ans:
            what = q[0]
            names = '+'.join(sorted({p['name'] for p in owner.mspec['rewards']})) if what in ('reward', 'fstep') else owner.mspec['obs']['name']
            self.violate('purity', 'history_dependent_answer', what, names, f'the same {what} question answered differently after other calls: {str(ans)[:150]} then {str(again)[:150]}')

    # -- direct transition_with_copy
    def op_twc(self, cl, i, k):
        from gym_gridverse.envs.transition_functions import transition_with_copy

        if not cl.pool or not cl.proxied:
            return
        s0 = cl.pool[i % len(cl.pool)]
        w0 = world_of(s0)
        a = cl.actions[k % len(cl.actions)]
        r = sut(transition_with_copy, cl.transition, s0, action_of(a), rng=getattr(cl.env, '_rng', None))
        self.ctx.log('twc', cl.idx, a)
        if world_of(s0) != w0:
            self.violate('purity', 'argument_modified', 'transition_with_copy', a, 'transition_with_copy modified its input state')
            return
        if isinstance(r, Raised):
            return
        sh = shared(s0, r)
        if sh:
            self.violate('purity', 'aliasing', 'transition_with_copy', '+'.join(sh), f'shares {sh}')

    # -- caller mutation (fault)
    def op_mutate_probe(self, cl, i, k, side, mseed):
        import random

        if not cl.pool:
            return
        w0 = world_of(cl.pool[i % len(cl.pool)])
        a = cl.actions[k % len(cl.actions)]
        s0 = mk_state(w0)  # throw-away copy made by the harness' own copier
        r = sut(cl.env.functional_step, s0, action_of(a))
        if isinstance(r, Raised):
            return
        s1 = r[0]
        w1 = world_of(s1)
        rr = random.Random(mseed)
        if side == 'output':
            kinds = mutations(s1, rr)
            victim, before, name = s0, w0, 'input_changed_by_mutating_output'
        else:
            kinds = mutations(s0, rr)
            victim, before, name = s1, w1, 'output_changed_by_mutating_input'
        self.ctx.fault('caller_mutation_' + side)
        after = world_of(victim)
        if after != before:
            diff = _diff(before, after)
            self.violate('purity', name, 'functional_step', diff, f'after {a}, mutating the {side} ({sorted(set(kinds))}) changed the other state: {diff}')

    def op_copy_probe(self, cl, i):
        from gym_gridverse.utils.fast_copy import fast_copy

        if not cl.pool:
            return
        s = cl.pool[i % len(cl.pool)]
        import copy as _copy

        d = sut(_copy.deepcopy, s)
        if isinstance(d, Raised):
            self.violate('purity', 'copy_raised', 'copy.deepcopy', d.type, repr(d))
            return
        if state_key(d) != state_key(s) or sut(lambda: d.grid == s.grid and d.agent == s.agent and hash(d.grid) == hash(s.grid)) is not True:
            self.violate('purity', 'copy_differs', 'copy.deepcopy', 'digest', 'a deep-copied state is structurally different or does not equal / hash like its original')
            return
        c = sut(fast_copy, s)
        self.ctx.probe('copy_probe')
        if isinstance(c, Raised):
            self.violate('purity', 'copy_raised', 'fast_copy', c.type, repr(c))
            return
        if state_key(c) != state_key(s):
            self.violate('purity', 'copy_differs', 'fast_copy', 'digest', 'a copied state is structurally different (box contents included)')
            return
        eq = sut(lambda: c == s and c.grid == s.grid and c.agent == s.agent)
        hs = sut(lambda: hash(c.grid) == hash(s.grid) and hash(c.agent) == hash(s.agent))
        if eq is not True:
            self.violate('purity', 'copy_not_equal', 'fast_copy', '-', f'copy == original is {eq!r}')
        elif hs is not True:
            self.violate('purity', 'copy_hash_differs', 'fast_copy', '-', f'hash(copy) == hash(original) is {hs!r}')
        elif shared(s, c):
            self.violate('purity', 'aliasing', 'fast_copy', '+'.join(shared(s, c)), 'copy shares mutable components')
        else:
            # a copy made by the harness' own copier (rebuilt from the descriptors) is an equal state with another
            # history: it must equal and hash like the original too
            rb = mk_state(world_of(s))
            eq2 = sut(lambda: rb.grid == s.grid and rb.agent == s.agent)
            hs2 = sut(lambda: (hash(rb.grid) == hash(s.grid), hash(rb.agent) == hash(s.agent)))
            if eq2 is not True:
                self.violate('purity', 'rebuilt_copy_not_equal', 'Grid.__eq__', '-', f'a structurally identical state compares {eq2!r}')
            elif hs2 != (True, True):
                self.violate('purity', 'equal_states_hash_differently', 'Grid.__hash__' if hs2 and hs2[0] is not True else 'Agent.__hash__', '-',
                             f'a state and a structurally identical rebuilt copy hash differently ({hs2!r}): the hash depends on the state\'s history')

    def op_bad_action(self, cl, kind, k):
        pass


def _diff(a, b):
    if a['agent'] != b['agent']:
        return 'agent' if a['agent'][:3] != b['agent'][:3] else 'held_' + a['agent'][3][0]
    for y in range(a['h']):
        for x in range(a['w']):
            if a['cells'][y][x] != b['cells'][y][x]:
                return 'cell_' + a['cells'][y][x][0]
    return 'shape'


def execute(record, ctx):
    sim = PuritySim(record, ctx)
    sim.run()
    if ctx.ticks >= 10 and ctx.fired > 0 and ctx.stats.get('probe:reasked'):
        ctx.distinct.add(ctx.trace_digest())
    ctx.sample = {'clients': [c.get('yaml') or {'chain': c['chain'], 'rewards': [p['name'] for p in c['rewards']], 'obs': c['obs']['name']} for c in record['clients']],
                  'ops_head': record['ops'][:12], 'n_ops': len(record['ops'])}


def simplify(record):
    import copy

    if len(record['clients']) > 1:
        for i in range(len(record['clients'])):
            r2 = copy.deepcopy(record)
            r2['ops'] = [o for o in r2['ops'] if o[0] != i]
            if len(r2['ops']) < len(record['ops']):
                yield r2
    else:
        yield from common.simplify_single(record)
