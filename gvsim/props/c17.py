"""C17 - configurations build exactly the environment they describe, or are rejected (engine: configsim).

M-config is an independent interpreter of configuration data (no schema library, no factory code):
name -> registry function, reserved keys converted, parameters filtered by the function's own signature,
transitions applied in listed order, rewards summed.  Faults are injected into the configuration input:
data-level corruption and text-level corruption served through an in-memory file behind `open`.
"""
import copy
import filecmp
import importlib
import inspect
import io
import os

from gvsim.bootstrap import REPO
from gvsim.kernel import stream
from gvsim.lib import ACTIONS, COLORS, action_of, mk_state, sha, state_key, world_of, wkey
from gvsim.sim import Raised, sut
from gvsim import worlds as W

PROP = 'C17'
TIERS = {'quick': {'runs': 1200, 'wall': 110, 'chunk': 10}, 'thorough': {'runs': 30000, 'wall': 1500, 'chunk': 20}}
REACH = ['data_unknown_name', 'data_drop_required', 'data_bad_shape', 'data_nest_term', 'data_sibling_param', 'data_spaces_differ', 'text_truncate', 'text_flip_byte', 'equivalent_histories', 'static_checked', 'component:visibility:yaml_level', 'component:reward:module_factory']  # probes / faults that must fire in every batch (reach gaps are reported in the evidence)
RULE = ('one run = 6 cases over the shipped configuration files (yaml/, registered_envs/, examples/coin_env.yaml, walked '
        'systematically); case kinds: equiv (real factory vs M-config: equal spaces and, with equal seeds and actions, '
        'digest-equal histories), repeat (build twice, input data unchanged), corrupt_data (delete key / unknown name / '
        'missing required parameter / malformed shape, colours, actions / duplicates / extra unaccepted parameters), '
        'corrupt_text (truncation, line deletion / duplication, byte flips through an in-memory file behind open), '
        'component (factory(name, **kw) vs registry function with the accepted parameters), static (packaged copies and '
        'gym ids); evaluations = cases; distinct = distinct (file, kind, corruption) digests; non-trivial = every case '
        'except static')
REAL = ['gym_gridverse.envs.yaml.factory + schemas (schema library)', 'component factories and registries', 'gym_gridverse.utils.registry / custom / functions',
        'gym_gridverse.gym (STRING_TO_YAML_FILE, registration)', 'PyYAML', 'GridWorld and all components (histories)']
STUB = ['in-memory file served through the module-level name `open` of gym_gridverse.envs.yaml.factory (text-level corruption)']
ASSUMPTIONS = ['names of the form module:name with a non-importable module are not used', 'unparsable text may raise anything; damage classes outside the statement\'s list are undecided']

FILES = [('yaml', n) for n in W.SHIPPED] + [('gym_gridverse/registered_envs', n) for n in W.SHIPPED] + [('examples', 'coin_env.yaml')]
TOP_KEYS = ['state_space', 'observation_space', 'reset_function', 'transition_functions', 'reward_functions', 'observation_function', 'terminating_function']


class Reject(Exception):
    """M-config's validator: the data is in a class the statement says must be rejected"""


class Undecided(Exception):
    pass


# ------------------------------------------------------------------ M-config


def _registries():
    from gym_gridverse.envs import observation_functions as o, reset_functions as rs, reward_functions as rw, terminating_functions as tm, transition_functions as tr, visibility_functions as vs

    return {'reset': rs.reset_function_registry, 'transition': tr.transition_function_registry, 'reward': rw.reward_function_registry,
            'terminating': tm.terminating_function_registry, 'observation': o.observation_function_registry, 'visibility': vs.visibility_function_registry}


PROTOCOL = {'reset': ['rng'], 'transition': ['state', 'action', 'rng'], 'reward': ['state', 'action', 'next_state', 'rng'],
            'terminating': ['state', 'action', 'next_state', 'rng'], 'observation': ['state', 'rng'], 'visibility': ['grid', 'position', 'rng']}
N_POSITIONAL = {'reset': 0, 'transition': 2, 'reward': 3, 'terminating': 3, 'observation': 1, 'visibility': 2}


def resolve(name):
    if not isinstance(name, str):
        raise Undecided('name not a string')
    if ':' in name:
        mod, plain = name.split(':', 1)
        importlib.import_module(mod)
        return plain
    return name


def object_type(name):
    from gym_gridverse.grid_object import grid_object_registry

    plain = resolve(name)
    if plain not in grid_object_registry.names():
        raise Reject(f'unknown object type {name}')
    return grid_object_registry.from_name(plain)


def colours(data):
    from gym_gridverse.grid_object import Color

    if not isinstance(data, list):
        raise Reject('colours not a list')
    if any(not isinstance(c, str) or c not in COLORS for c in data):
        raise Reject('unknown colour')
    if len(set(data)) != len(data):
        raise Reject('duplicate colours')
    if not data:
        raise Undecided('empty colours')
    return [Color[c] for c in data]


def shape2(data, what):
    if not isinstance(data, list) or len(data) != 2 or any(isinstance(v, bool) or not isinstance(v, int) or v <= 0 for v in data):
        if what == 'shape':
            raise Reject('malformed shape')
        raise Undecided('malformed ' + what)
    return data


def build_function(kind, data):
    """configuration entry -> callable, by M-config's own reading"""
    import functools

    from gym_gridverse.geometry import Area, Shape, distance_function_factory

    if not isinstance(data, dict) or 'name' not in data:
        raise Undecided('function entry without name')
    reg = _registries()[kind]
    plain = resolve(data['name'])
    if plain not in reg:
        raise Reject(f'unknown {kind} function {data["name"]}')
    f = reg[plain]
    params = list(inspect.signature(f).parameters.values())
    own = [p for i, p in enumerate(params) if not (i < N_POSITIONAL[kind] or p.name == 'rng')]
    accepted = {p.name for p in own}
    required = {p.name for p in own if p.default is inspect.Parameter.empty}
    kw = {}
    for k, v in data.items():
        if k == 'name':
            continue
        if k == 'shape':
            v = Shape(*shape2(v, 'shape'))
        elif k == 'layout':
            v = tuple(shape2(v, 'layout'))
        elif k == 'area':
            try:
                v = Area(tuple(v[0]), tuple(v[1]))
                if not all(isinstance(c, int) and not isinstance(c, bool) for c in v.ys + v.xs) or len(data['area']) != 2 or len(data['area'][0]) != 2 or len(data['area'][1]) != 2:
                    raise Undecided('malformed area')
            except Undecided:
                raise
            except Exception:
                raise Undecided('malformed area')
        elif k == 'object_type':
            if not isinstance(v, str):
                raise Undecided('object_type not a string')
            v = object_type(v)
        elif k == 'colors':
            v = set(colours(v))
        elif k == 'distance_function':
            if v not in ('manhattan', 'euclidean'):
                raise Undecided('unknown distance function')
            v = distance_function_factory(v)
        elif k in ('transition_functions', 'reward_functions', 'terminating_functions'):
            if not isinstance(v, list) or not v:
                raise Undecided('empty or malformed function list')
            v = [build_function(k.split('_')[0], d) for d in v]
        elif k == 'reward_function':
            v = build_function('reward', v)
        elif k == 'visibility_function':
            v = build_function('visibility', v)
        if k in accepted:
            kw[k] = v
    missing = sorted(required - set(kw))
    if missing:
        raise Reject(f'missing required parameter {missing} of {data["name"]}')
    return functools.partial(f, **kw)


def mconfig_env(data):
    """the environment the data describes, assembled by hand"""
    from gym_gridverse.envs.gridworld import GridWorld
    from gym_gridverse.spaces import ActionSpace, ObservationSpace, StateSpace

    if not isinstance(data, dict):
        raise Undecided('not a mapping')
    for k in TOP_KEYS:
        if k not in data:
            raise Undecided(f'section {k} missing')
    extra = set(data) - set(TOP_KEYS) - {'action_space'}
    if extra:
        raise Undecided(f'unknown section {sorted(extra)}')
    spaces = {}
    for sp in ('state_space', 'observation_space'):
        d = data[sp]
        if not isinstance(d, dict) or set(d) != {'objects', 'colors'}:
            raise Undecided('malformed space section')
        if not isinstance(d['objects'], list) or not d['objects'] or any(not isinstance(o, str) for o in d['objects']):
            raise Undecided('malformed objects')
        if len(set(d['objects'])) != len(d['objects']):
            raise Undecided('duplicate objects')
        spaces[sp] = ([object_type(o) for o in d['objects']], colours(d['colors']))
    if 'action_space' in data:
        a = data['action_space']
        if not isinstance(a, list) or any(not isinstance(x, str) or x not in ACTIONS for x in a):
            raise Reject('unknown action')
        if len(set(a)) != len(a):
            raise Reject('duplicate actions')
        if not a:
            raise Undecided('empty action list')
        actions = [action_of(x) for x in a]
    else:
        actions = [action_of(x) for x in ACTIONS]
    for k in ('transition_functions', 'reward_functions'):
        if not isinstance(data[k], list) or not data[k]:
            raise Undecided(f'{k} not a non-empty list')
    reset = build_function('reset', data['reset_function'])
    transitions = [build_function('transition', d) for d in data['transition_functions']]
    rewards = [build_function('reward', d) for d in data['reward_functions']]
    observation = build_function('observation', data['observation_function'])
    terminating = build_function('terminating', data['terminating_function'])

    def transition(state, action, *, rng=None):
        for t in transitions:
            t(state, action, rng=rng)

    def reward(state, action, next_state, *, rng=None):
        return sum(r(state, action, next_state, rng=rng) for r in rewards)

    s = reset()
    o = observation(s)
    return GridWorld(StateSpace(s.grid.shape, *spaces['state_space']), ActionSpace(actions),
                     ObservationSpace(o.grid.shape, *spaces['observation_space']), reset, transition, observation, reward, terminating)


def classify(data):
    """('reject', why) | ('buildable', env) | ('undecided', why)"""
    try:
        return 'buildable', mconfig_env(copy.deepcopy(data))
    except Reject as e:
        return 'reject', str(e)
    except Undecided as e:
        return 'undecided', str(e)
    except Exception as e:  # noqa: BLE001  M-config itself could not assemble it: no claim
        return 'undecided', f'{type(e).__name__}: {e}'


# ------------------------------------------------------------------ comparing two environments


def history(env, seed, actions, n):
    env.set_seed(seed)
    out = []
    r = sut(env.reset)
    if isinstance(r, Raised):
        return [('reset_raised', r.type)]
    out.append(sha(state_key(env.state)))
    acts = env.action_space.actions
    for k in actions[:n]:
        o = sut(lambda: env.observation)
        out.append(('obs', sha(state_key(o)) if not isinstance(o, Raised) else o.type))
        r = sut(env.step, acts[k % len(acts)])
        if isinstance(r, Raised):
            out.append(('step_raised', r.type))
            break
        out.append((sha(state_key(env.state)), repr(float(r[0])), bool(r[1])))
    return out


def spaces_equal(a, b):
    return (a.state_space.grid_shape == b.state_space.grid_shape and set(a.state_space.object_types) == set(b.state_space.object_types)
            and a.state_space.colors == b.state_space.colors and list(a.action_space.actions) == list(b.action_space.actions)
            and a.observation_space.grid_shape == b.observation_space.grid_shape and set(a.observation_space.object_types) == set(b.observation_space.object_types)
            and a.observation_space.colors == b.observation_space.colors)


# ------------------------------------------------------------------ faults on the configuration input


def function_entries(data):
    """paths to every function entry (dict with a name) in the configuration"""
    out = []

    def walk(d, path):
        if isinstance(d, dict):
            if 'name' in d and isinstance(d['name'], str):
                out.append(path)
            for k, v in d.items():
                walk(v, path + [k])
        elif isinstance(d, list):
            for i, v in enumerate(d):
                walk(v, path + [i])

    for k in ('reset_function', 'transition_functions', 'reward_functions', 'observation_function', 'terminating_function'):
        if k in data:
            walk(data[k], [k])
    return out


def at(data, path):
    for p in path:
        data = data[p]
    return data


def corrupt_data(r, data):
    """returns (kind, corrupted deep copy)"""
    d = copy.deepcopy(data)
    entries = function_entries(d)
    kind = r.choice(['unknown_name', 'unknown_name', 'drop_required', 'drop_required', 'bad_shape', 'bad_shape', 'bad_colour', 'bad_action',
                     'duplicate', 'extra_param', 'extra_param', 'delete_section', 'unknown_object',
                     # legal variations of a shipped file (must build, and behave as the varied data describes)
                     'nest_term', 'nest_term', 'sibling_param', 'sibling_param', 'spaces_differ', 'reorder_actions', 'zero_param', 'duplicate_reward_name'])
    if kind == 'unknown_name':
        e = at(d, r.choice(entries))
        e['name'] = r.choice([e['name'] + 'x', 'no_such_function', e['name'].upper(), ''])
    elif kind == 'drop_required':
        cands = [(p, k) for p in entries for k in at(d, p) if k != 'name']
        if not cands:
            return None
        p, k = r.choice(cands)
        del at(d, p)[k]
    elif kind == 'bad_shape':
        cands = [p for p in entries if 'shape' in at(d, p)]
        if not cands:
            return None
        at(d, r.choice(cands))['shape'] = r.choice([[0, 3], [3], '3x3', [-5, 5], [5.0, 5], [5, 5, 5], [], None, [5, 0]])
    elif kind == 'bad_colour':
        where = r.choice(['state_space', 'observation_space', 'reset'])
        if where == 'reset':
            if 'colors' not in d['reset_function']:
                return None
            d['reset_function']['colors'] = r.choice([['RED', 'PURPLE'], ['red', 'GREEN'], 'RED', [1, 2]])
        else:
            d[where]['colors'] = r.choice([['NONE', 'PURPLE'], ['none'], ['NONE', 3], 'NONE'])
    elif kind == 'bad_action':
        d['action_space'] = r.choice([['MOVE_FORWARD', 'JUMP'], ['move_forward'], ['MOVE_FORWARD', 7], 'MOVE_FORWARD'])
    elif kind == 'duplicate':
        where = r.choice(['actions', 'colours'])
        if where == 'actions':
            d['action_space'] = ['MOVE_FORWARD', 'TURN_LEFT', 'MOVE_FORWARD']
        else:
            d['state_space']['colors'] = list(d['state_space']['colors']) + [d['state_space']['colors'][0]]
    elif kind == 'extra_param':
        e = at(d, r.choice(entries))
        e[r.choice(['unused_parameter', 'reward_onn', 'comment', 'num_things'])] = r.choice([1, 2.5, 'text', [1, 2], True])
    elif kind == 'nest_term':
        t = d['terminating_function']
        inner = {'name': r.choice(['reduce_any', 'reduce_all']), 'terminating_functions': [t] + ([{'name': 'bump_into_wall'}] if r.random() < 0.5 else [])}
        d['terminating_function'] = {'name': r.choice(['reduce_any', 'reduce_all']), 'terminating_functions': [inner, t]}
    elif kind == 'sibling_param':
        # a parameter name that a namesake in ANOTHER registry accepts (must be ignored here, or used if accepted here)
        terms = [p for p in entries if p[0] == 'terminating_function']
        e = at(d, r.choice(terms if terms and r.random() < 0.7 else entries))
        e[r.choice(['reward', 'reward_on', 'reward_off', 'reward_closer'])] = r.choice([0.0, 0.0, -2.5, 3.0])
    elif kind == 'spaces_differ':
        sec = r.choice(['state_space', 'observation_space'])
        extra_c = [c for c in COLORS if c not in d[sec]['colors']]
        extra_o = [o for o in ('Beacon', 'Telepod', 'MovingObstacle', 'Key', 'Door') if o not in d[sec]['objects']]
        if extra_c and (r.random() < 0.5 or not extra_o):
            d[sec]['colors'] = list(d[sec]['colors']) + [r.choice(extra_c)]
        elif extra_o:
            d[sec]['objects'] = list(d[sec]['objects']) + [r.choice(extra_o)]
        else:
            return None
    elif kind == 'reorder_actions':
        a = list(d.get('action_space', ACTIONS))
        r.shuffle(a)
        d['action_space'] = a
    elif kind == 'duplicate_reward_name':
        # the same reward function listed twice with different values: both count
        src = r.choice(d['reward_functions'])
        scale = r.choice([0.5, -1.0, 2.0])
        d['reward_functions'].append({k: (v * scale if isinstance(v, float) else v) for k, v in src.items()})
    elif kind == 'zero_param':
        cands = [(p, k) for p in entries for k, v in at(d, p).items() if isinstance(v, float)]
        if not cands:
            return None
        p, k = r.choice(cands)
        at(d, p)[k] = r.choice([0.0, 0.0, 0])
    elif kind == 'delete_section':
        del d[r.choice(TOP_KEYS)]
    elif kind == 'unknown_object':
        where = r.choice(['state_space', 'observation_space', 'param'])
        if where == 'param':
            cands = [p for p in entries if 'object_type' in at(d, p)]
            if not cands:
                return None
            at(d, r.choice(cands))['object_type'] = 'Unicorn'
        else:
            d[where]['objects'] = list(d[where]['objects']) + ['Unicorn']
    return kind, d


def corrupt_text(r, text):
    kind = r.choice(['truncate', 'truncate', 'delete_line', 'delete_line', 'duplicate_line', 'flip_byte', 'flip_byte'])
    if kind == 'truncate':
        return kind, text[: r.randrange(len(text))]
    lines = text.splitlines(True)
    if kind == 'delete_line':
        i = r.randrange(len(lines))
        return kind, ''.join(lines[:i] + lines[i + 1:])
    if kind == 'duplicate_line':
        i = r.randrange(len(lines))
        return kind, ''.join(lines[:i + 1] + [lines[i]] + lines[i + 1:])
    i = r.randrange(len(text))
    c = r.choice('abcXYZ019 :-[]#,')
    return kind, text[:i] + c + text[i + 1:]


# ------------------------------------------------------------------ generation / execution


def generate(seed, run, tier):
    r = stream(seed, PROP, run, 'gen')
    ops = []
    for j in range(6):
        d, n = FILES[(run * 6 + j) % len(FILES)] if r.random() < 0.7 else r.choice(FILES)
        kind = r.choice(['equiv', 'equiv', 'repeat', 'corrupt_data', 'corrupt_data', 'corrupt_data', 'corrupt_text', 'corrupt_text', 'component'])
        ops.append([kind, d, n, r.randrange(2**31), [r.randrange(8) for _ in range(r.randint(5, 30))]])
    if run % 50 == 0:
        ops.append(['static', '', '', 0, []])
    return {'property': PROP, 'seed': seed, 'run': run, 'tier': tier, 'debug': r.random() < 0.5, 'ops': ops}


def allowed_rejection(r):
    if r.type == 'ValueError':
        return True
    from schema import SchemaError

    return isinstance(r.exc, (SchemaError, ValueError))


def execute(record, ctx):
    import random

    import yaml

    from gym_gridverse.envs.yaml import factory as yf

    sample = None
    for i, (kind, d, n, s, actions) in enumerate(record['ops']):
        ctx.ticks += 1
        ctx.count('cases')
        ctx.log('case', i, kind, d, n)
        if kind == 'static':
            _static(ctx, i)
            continue
        path = os.path.join(REPO, d, n)
        text = open(path).read()
        data = yaml.safe_load(text)
        r = random.Random(s)
        site = n.split('.')[0].replace('gv_', '')
        if kind != 'static':
            ctx.distinct.add(sha((d, n, kind, s)))
        if kind in ('equiv', 'repeat'):
            real = sut(yf.factory_env_from_yaml, path) if r.random() < 0.5 else sut(yf.factory_env_from_data, copy.deepcopy(data))
            if isinstance(real, Raised):
                ctx.violate('config', 'shipped_file_rejected', site, real.type, i, f'{d}/{n}: {real!r}')
                continue
            if kind == 'equiv':
                verdict, model = classify(data)
                if verdict != 'buildable':
                    ctx.undecided['mconfig_cannot_build_shipped:' + n] += 1
                    continue
                if not spaces_equal(real, model):
                    ctx.violate('config', 'spaces_differ', site, '-', i, f'{d}/{n}: spaces of the built environment differ from the described ones')
                    continue
                h1, h2 = history(real, s, actions, len(actions)), history(model, s, actions, len(actions))
                if h1 != h2:
                    k = next((j for j, (a, b) in enumerate(zip(h1, h2)) if a != b), min(len(h1), len(h2)))
                    ctx.violate('config', 'behaviour_differs_from_description', site, f'at_event_{min(k, 3)}', i, f'{d}/{n}: built environment and hand-assembled one diverge at event {k}: {h1[k] if k < len(h1) else None} vs {h2[k] if k < len(h2) else None}')
                    continue
                ctx.probe('equivalent_histories')
                if sample is None:
                    sample = {'case': 'equiv', 'file': f'{d}/{n}', 'seed': s, 'steps': len(actions)}
            else:
                before = copy.deepcopy(data)
                e1 = sut(yf.factory_env_from_data, data)
                if data != before:
                    ctx.violate('config', 'input_data_modified', site, '-', i, f'{d}/{n}: factory_env_from_data changed its input')
                    continue
                e2 = sut(yf.factory_env_from_data, data)
                if isinstance(e1, Raised) or isinstance(e2, Raised):
                    ctx.violate('config', 'rebuild_failed', site, '-', i, f'{e1!r} / {e2!r}')
                    continue
                if not spaces_equal(e1, e2) or history(e1, s, actions, 12) != history(e2, s, actions, 12):
                    ctx.violate('config', 'not_repeatable', site, '-', i, f'{d}/{n}: building twice gives different environments')
                    continue
                ctx.probe('rebuilt')
        elif kind == 'corrupt_data':
            c = corrupt_data(r, data)
            if c is None:
                continue
            ck, bad = c
            ctx.fault('data_' + ck)
            _judge_corrupted(ctx, i, site, ck, bad, lambda: sut(yf.factory_env_from_data, copy.deepcopy(bad)), s, actions)
            if sample is None:
                sample = {'case': 'corrupt_data', 'file': f'{d}/{n}', 'corruption': ck}
        elif kind == 'corrupt_text':
            ck, bad_text = corrupt_text(r, text)
            ctx.fault('text_' + ck)
            try:
                parsed = yaml.safe_load(bad_text)
            except Exception:  # noqa: BLE001  unparsable text may raise anything
                parsed = None
                ctx.count('unparsable_text')
                # still: the real loader must not hang or build something
            fake = lambda p, *a, **k: io.StringIO(bad_text)  # noqa: E731
            yf.open = fake  # the module-level name `open` is the seam
            try:
                real = sut(yf.factory_env_from_yaml, path)
            finally:
                del yf.open
            if parsed is None:
                if not isinstance(real, Raised):
                    ctx.violate('config', 'built_from_unparsable_text', site, ck, i, f'{d}/{n} {ck}')
                continue
            _judge_corrupted(ctx, i, site, 'text_' + ck, parsed, lambda: real, s, actions)
        elif kind == 'component':
            _component(ctx, i, r, site)
    ctx.sample = sample


def _judge_corrupted(ctx, i, site, ck, bad, build_real, s, actions):
    verdict, model = classify(bad)
    real = build_real()
    if verdict == 'reject':
        ctx.probe('must_reject:' + ck.replace('text_', ''))
        if not isinstance(real, Raised):
            ctx.violate('config', 'corrupted_configuration_accepted', site, ck, i, f'{ck} ({model}): the factory built an environment instead of rejecting')
        elif not allowed_rejection(real):
            ctx.violate('config', 'rejected_with_wrong_exception', site, ck + '_' + real.type, i, f'{ck} ({model}): {real!r}')
    elif verdict == 'buildable':
        ctx.probe('still_buildable:' + ck.replace('text_', ''))
        if isinstance(real, Raised):
            # M-config is more permissive than the real factory somewhere the statement does not cover
            if ck in ('extra_param',):
                ctx.violate('config', 'unaccepted_parameter_not_ignored', site, real.type, i, f'{ck}: {real!r}')
            elif ck in ('nest_term', 'sibling_param', 'spaces_differ', 'reorder_actions', 'zero_param', 'duplicate_reward_name'):
                ctx.violate('config', 'legal_variation_rejected', site, ck + '_' + real.type, i, f'{ck}: a legal variation of the shipped file was rejected: {real!r}')
            else:
                ctx.undecided['real_rejects_what_mconfig_builds:' + ck] += 1
            return
        if not spaces_equal(real, model) or history(real, s, actions, 15) != history(model, s, actions, 15):
            ctx.violate('config', 'behaviour_differs_from_description', site, ck, i, f'after {ck} the built environment differs from the one the data describes')
    else:
        ctx.undecided['unclassified_damage:' + ck.replace('text_', '')] += 1


def _static(ctx, i):
    import gym

    import gym_gridverse.gym as gg

    for n in W.SHIPPED:
        a, b = os.path.join(REPO, 'yaml', n), os.path.join(REPO, 'gym_gridverse', 'registered_envs', n)
        if not (os.path.exists(a) and os.path.exists(b) and filecmp.cmp(a, b, shallow=False)):
            ctx.violate('config', 'packaged_copy_differs', n.split('.')[0], '-', i, f'{a} vs {b}')
    files = set(W.SHIPPED)
    if set(gg.STRING_TO_YAML_FILE.values()) != files:
        ctx.violate('config', 'gym_ids_do_not_cover_files', 'STRING_TO_YAML_FILE', '-', i, str(sorted(files ^ set(gg.STRING_TO_YAML_FILE.values()))))
    for gid, n in sorted(gg.STRING_TO_YAML_FILE.items()):
        spec = gym.spec(gid)
        f = spec.kwargs.get('factory')
        target = f.args[0] if f is not None and getattr(f, 'args', None) else None
        if target is None or os.path.basename(target) != n or os.path.realpath(os.path.dirname(target)) != os.path.realpath(os.path.join(REPO, 'gym_gridverse', 'registered_envs')):
            ctx.violate('config', 'gym_id_points_elsewhere', gid, '-', i, f'{gid} -> {target}, expected registered_envs/{n}')
    ctx.probe('static_checked')


COMPONENT_CASES = [
    ('reward', 'reach_exit', {'reward_on': 3.5, 'reward_off': -0.25}),
    ('reward', 'overlap', {'object_type': 'Exit', 'reward_on': 2.0}),
    ('reward', 'living_reward', {'reward': -0.3}),
    ('reward', 'bump_into_wall', {'reward': -2.0}),
    ('reward', 'bump_moving_obstacle', {}),
    ('reward', 'actuate_door', {'reward_open': 0.7}),
    ('reward', 'pickndrop', {'object_type': 'Key', 'reward_pick': 0.4}),
    ('reward', 'proportional_to_distance', {'object_type': 'Exit', 'distance_function': 'euclidean', 'reward_per_unit_distance': -0.5}),
    ('reward', 'getting_closer', {'object_type': 'Exit', 'reward_closer': 0.3}),
    ('reward', 'getting_closer_shortest_path', {'object_type': 'Exit'}),
    ('terminating', 'reach_exit', {}),
    ('terminating', 'overlap', {'object_type': 'Exit'}),
    ('terminating', 'bump_into_wall', {}),
    ('terminating', 'bump_moving_obstacle', {}),
    ('transition', 'move_agent', {}),
    ('transition', 'turn_agent', {}),
    ('transition', 'pickndrop', {}),
    ('transition', 'actuate_door', {}),
    ('transition', 'actuate_box', {}),
    ('transition', 'move_obstacles', {}),
    ('transition', 'teleport', {}),
    ('observation', 'fully_transparent', {'area': [[-2, 0], [-1, 1]]}),
    ('observation', 'partially_occluded', {'area': [[-3, 0], [-2, 2]]}),
    ('observation', 'raytracing', {'area': [[-3, 1], [-1, 2]]}),
    ('observation', 'stochastic_raytracing', {'area': [[-2, 0], [-1, 1]]}),
    ('visibility', 'fully_transparent', {}),
    ('visibility', 'partially_occluded', {}),
    ('visibility', 'raytracing', {}),
    ('visibility', 'raytracing', {'absolute_counts': False, 'threshold': 0.5}),
    ('visibility', 'raytracing', {'threshold': 2}),
    ('visibility', 'stochastic_raytracing', {}),
    ('reward', 'living_reward', {'reward': 0.0}),
    ('reward', 'reach_exit', {'reward_on': 0.0, 'reward_off': 1.5}),
    ('reward', 'getting_closer', {'object_type': 'Exit', 'reward_further': 0.0, 'reward_closer': 0.0}),
    ('reset', 'empty', {'shape': [5, 6], 'random_agent': False, 'random_exit': True}),
    ('reset', 'dynamic_obstacles', {'shape': [5, 5], 'num_obstacles': 0, 'random_agent': True}),
    ('reset', 'empty', {'shape': [5, 6], 'random_agent': True}),
    ('reset', 'rooms', {'shape': [7, 7], 'layout': [2, 2]}),
    ('reset', 'keydoor', {'shape': [6, 7]}),
    ('reset', 'dynamic_obstacles', {'shape': [6, 6], 'num_obstacles': 3}),
    ('reset', 'crossing', {'shape': [7, 7], 'num_rivers': 2, 'object_type': 'Wall'}),
    ('reset', 'teleport', {'shape': [6, 6]}),
    ('reset', 'memory', {'shape': [7, 7], 'colors': ['RED', 'BLUE']}),
    ('reset', 'memory_rooms', {'shape': [9, 9], 'layout': [2, 2], 'colors': ['RED', 'BLUE', 'GREEN'], 'num_beacons': 1, 'num_exits': 2}),
    # user-registered components with optional parameters (no built-in transition / terminating function has one)
    ('transition', 'gvsim.probe_components:probe_repeated_turn', {'repeats': 2}),
    ('transition', 'gvsim.probe_components:probe_repeated_turn', {}),
    ('transition', 'gvsim.probe_components:probe_repeated_turn', {'repeats': 3}),
    ('reward', 'gvsim.probe_components:probe_scaled_living', {'scale': 2.5}),
    ('reward', 'gvsim.probe_components:probe_scaled_living', {'reward': 0.5, 'scale': -2.0}),
    ('terminating', 'gvsim.probe_components:probe_facing', {'heading': 'L'}),
    ('terminating', 'gvsim.probe_components:probe_facing', {}),
    # optional parameters given without the ones declared before them
    ('reset', 'empty', {'shape': [5, 6], 'random_exit': True}),
    ('reset', 'empty', {'shape': [6, 5], 'random_exit': False}),
    ('reset', 'memory_rooms', {'shape': [9, 9], 'layout': [2, 2], 'colors': ['RED', 'BLUE', 'GREEN'], 'num_exits': 3}),
    ('reward', 'reach_exit', {'reward_off': -0.5}),
    ('reward', 'actuate_door', {'reward_close': -0.7}),
    ('reward', 'pickndrop', {'object_type': 'Key', 'reward_drop': -0.4}),
    ('reward', 'getting_closer', {'object_type': 'Exit', 'reward_further': -0.3}),
    ('visibility', 'raytracing', {'threshold': 3}),
    # values the function itself refuses when called by hand (both routes must then refuse, or behave alike)
    ('reset', 'memory', {'shape': [7, 7], 'colors': ['NONE', 'RED', 'GREEN']}),
    ('reset', 'memory', {'shape': [5, 5], 'colors': ['RED', 'NONE', 'BLUE', 'YELLOW']}),
    ('reset', 'memory_rooms', {'shape': [9, 9], 'layout': [2, 2], 'colors': ['NONE', 'RED', 'BLUE'], 'num_beacons': 1, 'num_exits': 2}),
    ('reset', 'memory', {'shape': [6, 7], 'colors': ['RED', 'BLUE']}),
    ('reset', 'memory', {'shape': [7, 7], 'colors': ['RED']}),
    ('reset', 'dynamic_obstacles', {'shape': [4, 4], 'num_obstacles': 9}),
    ('reset', 'crossing', {'shape': [6, 6], 'num_rivers': 1, 'object_type': 'Wall'}),
    ('reset', 'keydoor', {'shape': [3, 3]}),
    ('reset', 'rooms', {'shape': [5, 5], 'layout': [3, 3]}),
    ('observation', 'partially_occluded', {'area': [[-2, 2], [-2, 2]]}),
    ('observation', 'raytracing', {'area': [[-3, -1], [-1, 1]]}),
    ('terminating', 'overlap', {'object_type': 'Wall'}),
]


def _component(ctx, i, r, site):
    """factory(name, **kw) behaves like the registry function called with the accepted parameters"""
    import numpy as np

    from gym_gridverse.envs import observation_functions as o, reset_functions as rs, reward_functions as rw, terminating_functions as tm, transition_functions as tr, visibility_functions as vs

    factories = {'reset': rs.factory, 'transition': tr.factory, 'reward': rw.factory, 'terminating': tm.factory, 'observation': o.factory, 'visibility': vs.factory}
    kind, name, params = r.choice(COMPONENT_CASES)
    data = dict(params, name=name)
    extra = r.random() < 0.5
    try:
        model = build_function(kind, data)
    except (Reject, Undecided):
        return
    # the real route: yaml-level factory for the kind (reserved keys processed by the repository)
    from gym_gridverse.envs.yaml import factory as yf

    d2 = copy.deepcopy(data)
    if extra:
        d2['unused_parameter'] = 3
        ctx.fault('component_extra_param')
    d2_before = copy.deepcopy(d2)
    route = 'yaml_level' if r.random() < 0.6 else 'module_factory'
    if route == 'yaml_level':
        real = sut(getattr(yf, f'factory_{kind}_function'), d2)
    else:
        # the component's own factory(name, **kwargs), keyword values converted by M-config's reading
        from gym_gridverse.geometry import Area, Shape, distance_function_factory
        from gym_gridverse.grid_object import Color

        kw = {}
        for k, v in d2.items():
            if k == 'name':
                continue
            kw[k] = (Shape(*v) if k == 'shape' else tuple(v) if k == 'layout' else Area(tuple(v[0]), tuple(v[1])) if k == 'area'
                     else object_type(v) if k == 'object_type' else set(Color[c] for c in v) if k == 'colors'
                     else distance_function_factory(v) if k == 'distance_function' else v)
        real = sut(factories[kind], name, **kw)
    if d2 != d2_before:
        ctx.violate('config', 'input_data_modified', f'{kind}:{name}', 'component_factory', i, f'factory_{kind}_function changed its input {d2_before} -> {d2}')
        return
    if isinstance(real, Raised):
        ctx.violate('config', 'component_factory_raised', f'{kind}:{name}', real.type + ('_extra_param' if extra else ''), i, f'{d2}: {real!r}')
        return
    seed = r.randrange(2**31)
    types = ['Floor', 'Wall', 'Exit', 'Door', 'Key', 'MovingObstacle', 'Telepod']
    world = W.gen_world(r, r.randint(3, 6), r.randint(3, 6), types, COLORS, unique='Exit', valid_start=True, held_types=['Key'], box_inner=['Floor'])
    world2 = W.gen_world(r, world['h'], world['w'], types, COLORS, unique='Exit', valid_start=True, held_types=['Key'], box_inner=['Floor'])
    a = action_of(ACTIONS[r.randrange(8)])

    def call(f):
        g = np.random.default_rng(seed)
        if kind == 'reset':
            return sut(lambda: state_key(f(rng=g)))
        if kind == 'transition':
            s = mk_state(world)
            out = sut(f, s, a, rng=g)
            return out if isinstance(out, Raised) else state_key(s)
        if kind in ('reward', 'terminating'):
            return sut(lambda: repr(f(mk_state(world), a, mk_state(world2), rng=g)))
        if kind == 'visibility':
            from gym_gridverse.geometry import Position

            st = mk_state(world)
            return sut(lambda: f(st.grid, Position(st.grid.shape.height - 1, st.agent.position.x), rng=g).astype(int).tolist())
        return sut(lambda: state_key(f(mk_state(world), rng=g)))

    x, y = call(real), call(model)
    ctx.probe('component:' + kind + ':' + route)
    xr, yr = isinstance(x, Raised), isinstance(y, Raised)
    if xr != yr or (not xr and x != y):
        ctx.violate('config', 'component_differs_from_function', f'{kind}:{name}', 'extra_param' if extra else '-', i, f'{d2}: factory result behaves differently from the registry function with the accepted parameters ({x!r} vs {y!r})')


def simplify(record):
    for i, op in enumerate(record['ops']):
        if len(op[4]) > 1:
            r2 = copy.deepcopy(record)
            r2['ops'][i][4] = op[4][: len(op[4]) // 2]
            yield r2
