"""C09 - conservation of objects (engine: gvsim.sim, profile `conservation`)."""
import collections

from gvsim import model as M
from gvsim.kernel import stream
from gvsim.lib import holdable
from gvsim.props import common
from gvsim.sim import Raised, Sim

PROP = 'C09'
TIERS = {'quick': {'runs': 2400, 'wall': 100}, 'thorough': {'runs': 60000, 'wall': 1500}}
REACH = ['pick', 'drop', 'swap', 'box_opened', 'box_opened_nested', 'obstacle_moved', 'pick_off_top', 'pick_off_left', 'pick_refused_Door', 'knob:near_duplicate_states']  # probes / faults that must fire in every batch (reach gaps are reported in the evidence)
RULE = ('one run = one client (random composition with pickndrop / move_obstacles / actuate_box biased in, worlds '
        'rich in keys, nested boxes, obstacles; or the shipped key-door / obstacle configurations) under a seeded op '
        'list; distinct = executed-trace digest; non-trivial = >=10 ops and at least one pick/drop/swap/box-opening/'
        'obstacle-move/edge-pick probe hit')
REAL = common.REAL_SIM
STUB = common.STUB_SIM
ASSUMPTIONS = ['a raising step is C01\'s business; only steps that return are judged here']


def generate(seed, run, tier):
    r = stream(seed, PROP, run, 'gen')
    rec = common.base_record(PROP, seed, run, tier)
    rec['debug'] = r.random() < 0.5
    big = tier == 'thorough'
    names = ['gv_keydoor.5x5.yaml', 'gv_keydoor.7x7.yaml', 'gv_keydoor.9x9.yaml', 'gv_dynamic_obstacles.5x5.yaml', 'gv_dynamic_obstacles.7x7.yaml']
    spec = common.pick_client(r, p_yaml=0.2, yaml_names=names, hmax=8 if big else 6, wmax=8 if big else 6)
    if spec['kind'] == 'hand':
        for must in ('pickndrop',):
            if must not in spec['chain'] and r.random() < 0.7:
                spec['chain'].insert(r.randrange(len(spec['chain']) + 1), must)
        if 'PICK_N_DROP' not in spec['actions']:
            spec['actions'].append('PICK_N_DROP')
    rec['clients'] = [spec]
    n = r.randint(30, 120 if not big else 400)
    rec['ops'] = common.world_ops(r, spec, n, weights=dict(fobs=0, read_obs=0.1, turnpair=0.1, guided=3))
    return rec


def mask(d):
    """descriptor with the door status masked (status changes are C10's; identity/colour are ours)"""
    if d[0] == 'Door':
        return ('Door', d[2])
    if d[0] == 'Box':
        return ('Box', mask(d[1]))
    return d


def inventory(w):
    inv = collections.Counter()
    for row in w['cells']:
        for c in row:
            if c[0] != 'Floor':
                inv[mask(c)] += 1
    if w['agent'][3][0] != 'NoneGridObject':
        inv[mask(w['agent'][3])] += 1
    return inv


def opened_box(before, a):
    """(position, box descriptor) the documented dynamics open on this action, or None"""
    if a != 'ACTUATE':
        return None
    fy, fx = M.front(before)
    if not M.inside(before, fy, fx):
        return None
    c = before['cells'][fy][fx]
    return ((fy, fx), c) if c[0] == 'Box' else None


class Conservation:
    def on_step(self, cl, ev):
        sim = self.sim
        if isinstance(ev['out'], Raised):
            return
        w0, w1, a = ev['w0'], ev['w1'], ev['action']
        if not M.inside(w0, w0['agent'][0], w0['agent'][1]):
            return
        sb = common.seam_break(ev) if cl.proxied else None
        if sb is not None:
            sim.violate('conservation', 'state_changed_outside_components', sb[0], common.world_diff(sb[1], sb[2]), f'{a}: the state differs {sb[0]} ({common.world_diff(sb[1], sb[2])})')
            return
        chain = cl.mspec['chain']
        if cl.proxied and len(ev['complog']) == len(chain):
            for (name, before, after, _) in ev['complog']:
                if not self.component(name, before, after, a):
                    return
        else:
            self.whole(chain, w0, w1, a)

    # -- one component -------------------------------------------------------------
    def component(self, name, before, after, a):
        sim = self.sim
        exp = inventory(before)
        ob = opened_box(before, a) if name == 'actuate_box' else None
        if ob is not None:
            exp[mask(ob[1])] -= 1
            if ob[1][1][0] != 'Floor':
                exp[mask(ob[1][1])] += 1
            exp = +exp
            sim.ctx.probe('box_opened' + ('_nested' if ob[1][1][0] == 'Box' else ''))
        got = inventory(after)
        if got != exp:
            lost = sorted((exp - got).items())
            made = sorted((got - exp).items())
            sim.violate('conservation', 'inventory', name, _pcause(before, a), f'{name} on {a}: lost {lost} created {made}')
            return False
        # scenery stays in place
        for y in range(before['h']):
            for x in range(before['w']):
                c = before['cells'][y][x]
                if c[0] in ('Floor', 'MovingObstacle') or holdable(c):
                    continue
                if ob is not None and ob[0] == (y, x):
                    continue
                if mask(after['cells'][y][x]) != mask(c):
                    sim.violate('conservation', 'scenery_changed', name, c[0] + '_' + _pcause(before, a),
                                f'{name} on {a}: cell {(y, x)} {c} -> {after["cells"][y][x]}')
                    return False
        if name == 'pickndrop':
            m = M.mutable(before)
            M.pickndrop(m, a)
            self._pprobes(before, a)
            if M.frozen(m)['cells'] != after['cells'] or M.frozen(m)['agent'][3] != after['agent'][3]:
                sim.violate('conservation', 'pickndrop_case', 'pickndrop', _pcause(before, a),
                            f'pickndrop on {a}: held {before["agent"][3]} front {_frontcell(before)} -> held {after["agent"][3]}, model held {m["agent"][3]}')
                return False
        elif name == 'move_obstacles':
            if set(M.obstacles(before)) != set(M.obstacles(after)):
                sim.ctx.probe('obstacle_moved')
        elif name not in ('actuate_box',):
            # holdables and obstacles are moved by nothing else
            for y in range(before['h']):
                for x in range(before['w']):
                    if mask(after['cells'][y][x]) != mask(before['cells'][y][x]):
                        sim.violate('conservation', 'moved_by_other_component', name, before['cells'][y][x][0],
                                    f'{name} on {a}: cell {(y, x)} {before["cells"][y][x]} -> {after["cells"][y][x]}')
                        return False
            if after['agent'][3] != before['agent'][3]:
                sim.violate('conservation', 'held_changed', name, '-', f'{name} on {a}: held {before["agent"][3]} -> {after["agent"][3]}')
                return False
        return True

    def _pprobes(self, w, a):
        if a != 'PICK_N_DROP':
            return
        ctx = self.sim.ctx
        fy, fx = M.front(w)
        empty = w['agent'][3][0] == 'NoneGridObject'
        if not M.inside(w, fy, fx):
            ctx.probe('pick_off_' + ('top' if fy < 0 else 'left' if fx < 0 else 'bottom' if fy >= w['h'] else 'right'))
            return
        c = w['cells'][fy][fx]
        if holdable(c):
            ctx.probe('pick' if empty else 'swap')
        elif c[0] == 'Floor':
            ctx.probe('drop' if not empty else 'pick_nothing')
        else:
            ctx.probe('pick_refused_' + c[0])

    # -- whole step (unproxied stacks: shipped configurations) ---------------------------
    def whole(self, chain, w0, w1, a):
        sim = self.sim
        known = [n for n in chain if n in M.DETERMINISTIC or n in M.STOCHASTIC]
        if len(known) != len(chain):
            return  # custom components (coin_env) make no conservation claim
        exp = inventory(w0)
        got = inventory(w1)
        m = M.mutable(w0)
        if all(n in M.DETERMINISTIC for n in chain):
            M.step_deterministic(m, a, chain)
            fm = M.frozen(m)
            if tuple(tuple(mask(c) for c in row) for row in fm['cells']) != tuple(tuple(mask(c) for c in row) for row in w1['cells']) or fm['agent'][3] != w1['agent'][3]:
                sim.violate('conservation', 'step_grid', 'chain', _pcause(w0, a), f'{a}: grid/held differ from model; chain {chain}')
                return
            self._pprobes(w0, a) if 'pickndrop' in chain else None
        else:
            if 'actuate_box' in chain:
                return
            if got != exp:
                sim.violate('conservation', 'inventory', 'chain', _pcause(w0, a), f'{a}: lost {sorted((exp - got).items())} created {sorted((got - exp).items())}')


def _frontcell(w):
    fy, fx = M.front(w)
    return w['cells'][fy][fx] if M.inside(w, fy, fx) else 'outside'


def _pcause(w, a):
    fy, fx = M.front(w)
    if not M.inside(w, fy, fx):
        side = 'top' if fy < 0 else 'left' if fx < 0 else 'bottom' if fy >= w['h'] else 'right'
        return f'front_off_{side}_edge'
    return 'front_' + w['cells'][fy][fx][0]


def execute(record, ctx):
    sim = Sim(record, ctx, [Conservation()])
    sim.run()
    probes = sum(n for k, n in ctx.stats.items() if k.startswith('probe:') and not k.startswith('probe:guided'))
    if ctx.ticks >= 10 and probes > 0:
        ctx.distinct.add(ctx.trace_digest())
    from gvsim.props.c08 import _brief

    ctx.sample = {'client': _brief(record['clients'][0]), 'ops_head': record['ops'][:12], 'n_ops': len(record['ops'])}


simplify = common.simplify_single
