"""C08 - agent kinematics (engine: gvsim.sim, profile `kinematics`).  DESIGN.md section 5."""
from gvsim import model as M
from gvsim import worlds as W
from gvsim.kernel import stream
from gvsim.lib import blocks_movement
from gvsim.props import common
from gvsim.sim import Raised, Sim
from gvsim.worlds import world_is_valid_start

PROP = 'C08'
TIERS = {'quick': {'runs': 2400, 'wall': 100}, 'thorough': {'runs': 60000, 'wall': 1500}}
REACH = ['move_off_top', 'move_off_left', 'move_off_bottom', 'move_off_right', 'move_blocked_by_Box', 'move_blocked_by_Door', 'teleport_fired', 'turn_pattern', 'pose_scan', 'knob:nested_chain', 'knob:long_strip', 'knob:two_nested_chains', 'knob:maze', 'action_given_as_index', 'knob:yaml_reordered_actions']  # probes / faults that must fire in every batch (reach gaps are reported in the evidence)
RULE = ('one run = one client (random composition of built-in components over a free-form world without '
        'mandatory boundary, or a shipped YAML configuration) driven by a seeded op list (stateful steps, '
        'functional steps on pool states for all actions, edge-hugging / object-seeking guided policies, turn '
        'patterns); distinct = distinct executed-trace digest; non-trivial = at least 10 executed steps and at '
        'least one rare-condition probe (edge move, blocked move, teleport, turn pattern) hit')
REAL = common.REAL_SIM
STUB = common.STUB_SIM
ASSUMPTIONS = ['pre-emption granularity is one public API call', 'teleport destinations are judged by C11, totality by C01']


def generate(seed, run, tier):
    r = stream(seed, PROP, run, 'gen')
    rec = common.base_record(PROP, seed, run, tier)
    rec['debug'] = r.random() < 0.5
    big = tier == 'thorough'
    spec = W.reorder_yaml_actions(common.pick_client(r, p_yaml=0.25, hmax=8 if big else 6, wmax=8 if big else 6))
    rec['clients'] = [spec]
    n = r.randint(30, 120 if not big else 300)
    rec['ops'] = common.world_ops(r, spec, n, weights=dict(fobs=0, read_obs=0.2, turnpair=0.8))
    return rec


class Kinematics:
    """per-step pose refinement against M-world + the history invariant"""

    def on_step(self, cl, ev):
        sim = self.sim
        if isinstance(ev['out'], Raised):
            # a raising step is a step that did not happen (C01 judges totality); but if the documented kinematics say the
            # pose must change, "did not happen" is itself a violation of "moves iff the target is inside and free"
            w0, a = ev['w0'], ev['action']
            chain = cl.mspec['chain']
            if M.inside(w0, w0['agent'][0], w0['agent'][1]) and all(n in M.DETERMINISTIC or n == 'move_obstacles' for n in chain):
                mw = M.mutable(w0)
                for name in chain:
                    if name in M.DETERMINISTIC:
                        M.DETERMINISTIC[name](mw, a)
                if list(mw['agent'][:3]) != list(w0['agent'][:3]):
                    sim.violate('kinematics', 'commanded_motion_did_not_happen', 'step_raised', _cause(w0, a, list(w0['agent'][:3]), list(mw['agent'][:3])),
                                f'action {a}: the step raised {ev["out"]!r} although the pose must change {w0["agent"][:3]} -> {mw["agent"][:3]}')
            return
        w0, w1, a = ev['w0'], ev['w1'], ev['action']
        if not M.inside(w0, w0['agent'][0], w0['agent'][1]):
            return
        chain = cl.mspec['chain']
        mw = M.mutable(w0)
        teleported = False
        pose_model = None
        sb = common.seam_break(ev) if cl.proxied else None
        if sb is not None:
            sim.violate('kinematics', 'state_changed_outside_components', sb[0], common.world_diff(sb[1], sb[2]), f'{a}: the state differs {sb[0]} ({common.world_diff(sb[1], sb[2])})')
            return
        # --- per component, when the chain is proxied
        if cl.proxied and len(ev['complog']) == len(chain):
            for (name, before, after, _) in ev['complog']:
                if not M.inside(before, before['agent'][0], before['agent'][1]):
                    return  # already outside the grid: reported when it happened
                b = M.mutable(before)
                exp = list(b['agent'][:3])
                if name == 'move_agent':
                    M.move_agent(b, a)
                    exp = b['agent'][:3]
                    self._probes(before, a)
                elif name == 'turn_agent':
                    M.turn_agent(b, a)
                    exp = b['agent'][:3]
                elif name == 'teleport':
                    partners = M.telepod_partners(before)
                    if partners:
                        sim.ctx.probe('teleport_fired')
                        continue  # destination is C11's business
                got = list(after['agent'][:3])
                if got != list(exp):
                    sim.violate('kinematics', 'component_pose', name, _cause(before, a, got, exp),
                                f'{name} on action {a}: pose {before["agent"][:3]} -> {got}, model {exp}')
                    return
        # --- whole step (works for YAML-built stacks too)
        pose = list(mw['agent'][:3])
        logged = cl.proxied and len(ev['complog']) == len(chain)
        obstacles_unknown = False
        for ci, name in enumerate(chain):
            if obstacles_unknown and name == 'pickndrop' and mw['agent'][3][0] == 'Telepod' and 'teleport' in chain[ci:]:
                # whether the held telepod can be dropped (creating a partner, hence a teleport) depends on where the
                # obstacles went, which only the component log knows
                sim.ctx.undecided['drop_of_held_telepod_after_unobserved_obstacle_motion'] += 1
                teleported = True
                break
            if name == 'move_agent':
                M.move_agent(mw, a)
            elif name == 'turn_agent':
                M.turn_agent(mw, a)
            elif name == 'teleport':
                partners = M.telepod_partners(mw)
                if partners:
                    teleported = True
                    break
            elif name in M.DETERMINISTIC:
                M.DETERMINISTIC[name](mw, a)
            elif name == 'move_obstacles':
                # swaps floor and obstacle cells only: neither blocks movement nor is a telepod - but a later drop needs
                # a Floor cell in front, so the model follows the obstacles where they really went (C11 judges where
                # they may go)
                if logged:
                    after = ev['complog'][ci][2]
                    for y in range(mw['h']):
                        for x in range(mw['w']):
                            if mw['cells'][y][x][0] in ('MovingObstacle', 'Floor') and after['cells'][y][x][0] in ('MovingObstacle', 'Floor'):
                                mw['cells'][y][x] = list(after['cells'][y][x])
                elif any(c[0] == 'MovingObstacle' for row in mw['cells'] for c in row):
                    obstacles_unknown = True
            elif name.startswith('coin_env:') or name == 'collect_coin_transition':
                pass
        if not teleported:
            pose = list(mw['agent'][:3])
            got = list(w1['agent'][:3])
            if got != pose:
                sim.violate('kinematics', 'step_pose', 'chain', _cause(w0, a, got, pose),
                            f'action {a}: pose {w0["agent"][:3]} -> {got}, model {pose}; chain {chain}')
                return
        # --- history invariant from valid initial states
        if ev['valid0']:
            y, x = w1['agent'][0], w1['agent'][1]
            if not M.inside(w1, y, x):
                sim.violate('kinematics', 'left_grid', 'history', _edge(w0), f'agent at {(y, x)} outside {w1["h"]}x{w1["w"]} after {a}')
            elif blocks_movement(w1['cells'][y][x]):
                sim.violate('kinematics', 'on_blocking_cell', 'history', w1['cells'][y][x][0], f'agent on {w1["cells"][y][x]} after {a}')

    def _probes(self, w, a):
        ctx = self.sim.ctx
        t = M.move_target(w, a)
        if t is None:
            return
        if not M.inside(w, *t):
            side = 'top' if t[0] < 0 else 'left' if t[1] < 0 else 'bottom' if t[0] >= w['h'] else 'right'
            ctx.probe('move_off_' + side)
        elif blocks_movement(w['cells'][t[0]][t[1]]):
            ctx.probe('move_blocked_by_' + w['cells'][t[0]][t[1]][0])
        else:
            ctx.probe('move_free')

    def on_reset(self, cl, ev):
        if 'w1' in ev:
            cl.cur_valid = world_is_valid_start(ev['w1'])
            cl.valid[0] = cl.cur_valid

    def on_turns(self, cl, pattern, w0, w1, clean):
        if not clean:
            return
        if w0['agent'][2] != w1['agent'][2] or w0['agent'][:2] != w1['agent'][:2]:
            if 'teleport' in cl.mspec['chain'] or 'move_obstacles' in cl.mspec['chain']:
                if w0['agent'][2] == w1['agent'][2]:
                    return
            self.sim.violate('kinematics', 'turn_pattern', pattern, '-', f'{pattern}: {w0["agent"][:3]} -> {w1["agent"][:3]}')


def _edge(w):
    y, x = w['agent'][0], w['agent'][1]
    return ('top' if y == 0 else '') + ('bottom' if y == w['h'] - 1 else '') + ('left' if x == 0 else '') + ('right' if x == w['w'] - 1 else '') or 'interior'


def _cause(w, a, got, exp):
    t = M.move_target(w, a)
    if t is not None and not M.inside(w, *t):
        side = 'top' if t[0] < 0 else 'left' if t[1] < 0 else 'bottom' if t[0] >= w['h'] else 'right'
        return f'move_off_{side}_edge'
    if t is not None:
        return 'move_onto_' + w['cells'][t[0]][t[1]][0]
    return 'non_move_action_' + a


def execute(record, ctx):
    sim = Sim(record, ctx, [Kinematics()])
    sim.run()
    nsteps = ctx.stats.get('steps_ok', 0)
    probes = sum(n for k, n in ctx.stats.items() if k.startswith('probe:'))
    if ctx.ticks >= 10 and probes > 0:
        ctx.distinct.add(ctx.trace_digest())
    ctx.sample = {'client': _brief(record['clients'][0]), 'ops_head': record['ops'][:12], 'n_ops': len(record['ops'])}


def _brief(spec):
    if spec['kind'] == 'yaml':
        return {'yaml': spec['yaml']}
    if spec.get('world') is None:
        return {'chain': spec['chain'], 'reset': spec['reset'], 'actions': spec['actions']}
    return {'chain': spec['chain'], 'shape': [spec['world']['h'], spec['world']['w']], 'agent': spec['world']['agent'], 'actions': spec['actions']}


simplify = common.simplify_single
