"""C05 - observations are sound (engine: viewsim, profile `view`).  Weak fit, see DESIGN.md section 0:
a pure function of (state, view) checked as the "a read never returns wrong data" oracle at every read of
every run; the RNG seam is owned for the stochastic function."""
from gvsim import model as M
from gvsim import views as V
from gvsim.kernel import stream
from gvsim.props import common
from gvsim.lib import COLORS, HEADINGS, mk_state, sha, world_of, wkey
from gvsim.sim import Client, Raised, Sim, inject_rng, sut

PROP = 'C05'
TIERS = {'quick': {'runs': 2400, 'wall': 100}, 'thorough': {'runs': 60000, 'wall': 1500}}
REACH = ['heading_BACKWARD', 'heading_LEFT', 'view_sticks_out_of_grid', 'scripted_first', 'scripted_last', 'one_object_class_world', 'observation_function_built_from_configuration']  # probes / faults that must fire in every batch (reach gaps are reported in the evidence)
RULE = ('one run = a free-form world without mandatory boundary, one built-in observation function (registry or '
        'factory) and one view area (any extent, asymmetric, origin inside or - where tolerated - outside), and a '
        'walking client that turns / moves / is placed on edges and corners and reads after every move (directly, and '
        'through GridWorld when the view width is odd); for the stochastic function the generator is a ScriptedRng '
        '(uniform / first / last / mixed) or a real seeded one; evaluations = observation reads; distinct = distinct '
        '(function, area, world, pose) digests; non-trivial = the view shows at least one non-hidden cell')
REAL = ['gym_gridverse.envs.observation_functions (from_visibility and the four built-ins, registry and factory)', 'gym_gridverse.envs.visibility_functions',
        'gym_gridverse.grid.Grid.subgrid / __mul__', 'gym_gridverse.geometry', 'gym_gridverse.envs.gridworld.GridWorld.functional_observation (odd-width views)',
        'transition functions move_agent / turn_agent (walking client)']
STUB = ['ScriptedRng (stochastic_raytracing, scripted profiles)']
ASSUMPTIONS = ['pure function of (state, view): the simulator contributes poses reached by walking, the generator seam and the per-read oracle']


def generate(seed, run, tier):
    r = stream(seed, PROP, run, 'gen')
    big = tier == 'thorough'
    name = V.OBS_NAMES[run % 4] if r.random() < 0.7 else r.choice(V.OBS_NAMES)
    area = V.gen_area(r, name, 9 if big else 7, behind_ok='any')
    world = V.gen_view_world(r, 8 if big else 6, 8 if big else 6)
    if r.random() < 0.12:
        # boundary condition: the view covers the grid exactly for one pose
        from gvsim.worlds import aligned_pose
        from gvsim.lib import COLORS as _C, BUILTIN_TYPES as _T
        from gvsim import worlds as _W

        hd = r.choice(HEADINGS)
        ah, aw, ay, ax = aligned_pose(area, hd)
        if 0 <= ay < ah and 0 <= ax < aw:
            world = _W.gen_world(r, ah, aw, list(_T), _C, valid_start=False)
            world['agent'][0], world['agent'][1], world['agent'][2] = ay, ax, hd
    ops = [['read', 'real', r.randrange(2**31), False], ['read', 'uniform', r.randrange(2**31), True], ['read', 'real', r.randrange(2**31), False]]
    for _ in range(r.randint(12, 40)):
        m = r.random()
        if m < 0.5:
            ops.append(['walk', r.randrange(6)])
        elif m < 0.7:
            # edges and corners, every heading
            ops.append(['place', r.choice([0, 0, -1, r.randrange(8)]), r.choice([0, 0, -1, r.randrange(8)]), r.choice(HEADINGS)])
        else:
            ops.append(['hold', r.choice([['NoneGridObject'], ['Key', r.choice(COLORS)], ['Box', ['Key', 'RED']], ['Wall']])])
        ops.append(['read', r.choice(['real', 'uniform', 'first', 'last', 'mixed']), r.randrange(2**31), r.random() < 0.4])
    vis = None
    if name in ('raytracing', 'partially_occluded', 'fully_transparent') and r.random() < 0.25:
        # the same view through from_visibility with a visibility function built by its factory (soundness holds for any)
        vis = {'name': name}
        if name == 'raytracing' and r.random() < 0.7:
            vis.update(r.choice([{'threshold': 2}, {'threshold': 3}, {'absolute_counts': False, 'threshold': 0.5}, {'absolute_counts': False, 'threshold': 1.0}, {'absolute_counts': True, 'threshold': 1}]))
    rec = {'property': PROP, 'seed': seed, 'run': run, 'tier': tier, 'debug': r.random() < 0.5, 'world': world,
            'obs': {'name': name, 'area': area}, 'vis': vis, 'via_factory': r.random() < 0.5, 'ops': ops,
            'alias_objects': stream(seed, PROP, run, 'alias').random() < 0.15}
    rec.update(common.knobs(PROP, seed, run))
    return rec


def execute(record, ctx):
    from gym_gridverse.geometry import Orientation, Position
    from gym_gridverse.agent import Agent
    from gym_gridverse.state import State
    from gvsim.lib import mk_obj

    name, area = record['obs']['name'], record['obs']['area']
    obs_f = V.mk_obs_function(name, area, record['via_factory'], record.get('vis'))
    if record.get('vis'):
        ctx.probe('from_visibility_with_built_visibility_function')
    common.probe_knobs(record, ctx)
    if record['world'].get('monotype'):
        ctx.probe('one_object_class_world')
    state = mk_state(record['world'])
    vh, vw = M.view_shape(area)
    env = None
    if vw % 2 == 1:
        ay, ax = M.view_anchor(area)
        if 0 <= ay < vh and 0 <= ax < vw:
            runner = Sim({'clients': [], 'ops': [], 'property': PROP}, ctx, [])
            spec = {'kind': 'hand', 'world': record['world'], 'pool_worlds': [], 'chain': ['move_agent', 'turn_agent'], 'rewards': [{'name': 'living_reward'}],
                    'term': {'name': 'reach_exit'}, 'obs': {'name': name, 'area': area}, 'actions': ['MOVE_FORWARD'],
                    'types': ['Floor', 'Wall', 'Exit', 'Door', 'Key', 'MovingObstacle', 'Box', 'Telepod', 'Beacon'], 'colors': list(COLORS), 'via_factory': record['via_factory']}
            env = Client(0, spec, runner).env
            if record['run'] % 3 == 0 and not record.get('vis'):
                # every third run: the same observation function and area written into a configuration and built by the
                # library's configuration factory (all object types and colours declared; the rest from a shipped file)
                import copy

                from gym_gridverse.envs.yaml.factory import factory_env_from_data
                from gvsim.sim import load_yaml_data

                data = copy.deepcopy(load_yaml_data('gv_empty.8x8.yaml'))
                for sec in ('state_space', 'observation_space'):
                    data[sec] = {'objects': ['Floor', 'Wall', 'Exit', 'Door', 'Key', 'MovingObstacle', 'Box', 'Telepod', 'Beacon'], 'colors': list(COLORS)}
                data['observation_function'] = {'name': name, 'area': [list(area[0]), list(area[1])]}
                built = sut(factory_env_from_data, data)
                if not isinstance(built, Raised):
                    env = built
                    ctx.probe('observation_function_built_from_configuration')
    sample = None
    for i, op in enumerate(record['ops']):
        ctx.ticks += 1
        if op[0] == 'walk':
            s2 = sut(V.walk, state, op[1])
            if not isinstance(s2, Raised):
                state = s2
            ctx.log('walk', op[1])
        elif op[0] == 'place':
            h, w = state.grid.shape.height, state.grid.shape.width
            y = h - 1 if op[1] == -1 else op[1] % h
            x = w - 1 if op[2] == -1 else op[2] % w
            state = State(state.grid, Agent(Position(y, x), Orientation[op[3]], state.agent.grid_object))
        elif op[0] == 'hold':
            state = State(state.grid, Agent(state.agent.position, state.agent.orientation, mk_obj(op[1])))
        elif op[0] == 'read':
            _, mode, seed, through_env = op
            w = world_of(state)
            ctx.count('cases')
            if through_env and env is not None:
                inject_rng(env, V.mk_rng(mode, seed))
                o = sut(env.functional_observation, state)
                site = name + '_via_gridworld'
            else:
                o = sut(obs_f, state, rng=V.mk_rng(mode, seed))
                site = name
            if isinstance(o, Raised) and name == 'partially_occluded' and area[0][1] != 0:
                # documented for views that end at the agent's row; elsewhere a refusal is fine (a result is judged)
                ctx.count('refused_outside_documented_domain')
                continue
            if name == 'partially_occluded' and area[0][1] != 0:
                ctx.probe('partially_occluded_off_row_view_answered')
            if isinstance(o, Raised):
                ctx.violate('view', 'observation_raised', site, o.type, i, f'area {area} agent {w["agent"][:3]} on {w["h"]}x{w["w"]}: {o!r}')
                continue
            ow = world_of(o)
            ctx.log('read', wkey(ow))
            if world_of(state) != w:
                ctx.violate('view', 'state_modified_by_observing', site, '-', i, 'the state changed while being observed')
                continue
            if mode != 'real' and name == 'stochastic_raytracing':
                ctx.fault('scripted_' + mode)
            if V.soundness(ctx, i, name, w, area, ow):
                if any(c != ('Hidden',) for row in ow['cells'] for c in row):
                    ctx.distinct.add(sha((name, area, wkey(w))))
            if sample is None:
                sample = {'obs': record['obs'], 'agent': list(w['agent'][:3]), 'world_shape': [w['h'], w['w']], 'shown': sum(c != ('Hidden',) for row in ow['cells'] for c in row)}
    ctx.sample = sample


def simplify(record):
    import copy

    from gvsim.worlds import simplify_world

    for wv in simplify_world(record['world']):
        r2 = copy.deepcopy(record)
        r2['world'] = wv
        yield r2
    a = record['obs']['area']
    for (i, j, d) in ((0, 0, 1), (0, 1, -1), (1, 0, 1), (1, 1, -1)):
        if a[i][0] < a[i][1]:
            r2 = copy.deepcopy(record)
            r2['obs']['area'][i][j] += d
            if record['obs']['name'] == 'partially_occluded' and r2['obs']['area'][0][1] != 0 and record['obs']['area'][0][1] == 0:
                continue
            a2 = r2['obs']['area']
            if record['obs']['name'] != 'fully_transparent' and not (a2[0][0] <= 0 <= a2[0][1] and a2[1][0] <= 0 <= a2[1][1]):
                continue  # the other functions need the agent's cell inside the view
            yield r2
