"""C14 - every initial state is winnable (engine: resetsim, profile `winnable`).

A planner client computes a plan on M-world and executes it against the real stack (bounded
liveness: the goal must be reached within the plan length, no earlier step terminal).  When the
model has no plan, or the plan fails on the real stack, a breadth-first search over the real
functional_step decides (deterministic families) or the instance is counted undecided.
"""
from collections import deque

from gvsim import model as M
from gvsim import resets as R
from gvsim.kernel import stream
from gvsim.lib import ACTIONS, action_of, blocks_movement, mk_state, sha, state_key, world_of, wkey
from gvsim.scripted_rng import ScriptedRng
from gvsim.sim import Client, Raised, Sim, inject_rng, sut

PROP = 'C14'
TIERS = {'quick': {'runs': 4000, 'wall': 110, 'chunk': 25}, 'thorough': {'runs': 100000, 'wall': 1500, 'chunk': 50}}
CASES_PER_RUN = 10
REACH = ['scripted_outcomes_replayed', 'plan_len_ge_10', 'shipped_configuration_searched']  # probes / faults that must fire in every batch (reach gaps are reported in the evidence)
RULE = ('one run = 10 instances; an instance = a built-in reset function with valid parameters and a seeded or scripted '
        '(uniform / first / last / mixed) generator, wrapped in the transition chain, termination and action space of the '
        'shipped configuration of its family; a planner client plans on the reference model (random outcomes resolved '
        'existentially) and executes the plan on the real stack with a ScriptedRng replaying the chosen outcomes; '
        'evaluations = instances; distinct = distinct initial-state digests; non-trivial = the plan has >= 2 steps')
REAL = ['gym_gridverse.envs.reset_functions', 'gym_gridverse.envs.gridworld.GridWorld.functional_step with the real transition chain, termination and reward components of the family',
        'numpy.random.Generator (real-seeded instances)']
STUB = ['ScriptedRng (scripted resets; replay of the planner\'s chosen obstacle / teleport outcomes)', 'constant reset function returning the instance\'s initial state']
ASSUMPTIONS = ['the dynamics, termination and action space of a family are those of its shipped configuration',
               'planner failures on stochastic families and real-step searches beyond the budget are undecided (counted, never reported)']

FAMILY = {
    'empty': dict(chain=['move_agent', 'turn_agent'], term={'name': 'reach_exit'}, actions=ACTIONS[:6], rewards=[{'name': 'reach_exit', 'reward_on': 5.0}]),
    'rooms': dict(chain=['move_agent', 'turn_agent'], term={'name': 'reach_exit'}, actions=ACTIONS[:6], rewards=[{'name': 'reach_exit', 'reward_on': 5.0}]),
    'crossing': dict(chain=['move_agent', 'turn_agent'], term={'name': 'reach_exit'}, actions=ACTIONS[:6], rewards=[{'name': 'reach_exit', 'reward_on': 5.0}]),
    'dynamic_obstacles': dict(chain=['move_agent', 'turn_agent', 'move_obstacles'],
                              term={'name': 'reduce_any', 'parts': [{'name': 'reach_exit'}, {'name': 'bump_moving_obstacle'}, {'name': 'bump_into_wall'}]},
                              actions=ACTIONS[:6], rewards=[{'name': 'reach_exit', 'reward_on': 5.0}, {'name': 'bump_moving_obstacle'}, {'name': 'bump_into_wall'}]),
    'keydoor': dict(chain=['move_agent', 'turn_agent', 'actuate_door', 'pickndrop'], term={'name': 'reach_exit'}, actions=list(ACTIONS), rewards=[{'name': 'reach_exit', 'reward_on': 5.0}]),
    'teleport': dict(chain=['move_agent', 'turn_agent', 'teleport'], term={'name': 'reach_exit'}, actions=ACTIONS[:6], rewards=[{'name': 'reach_exit', 'reward_on': 5.0}]),
    'memory': dict(chain=['move_agent', 'turn_agent'], term={'name': 'reach_exit'}, actions=ACTIONS[:6], rewards=[{'name': 'reach_exit_memory', 'reward_good': 5.0, 'reward_bad': -5.0}]),
    'memory_rooms': dict(chain=['move_agent', 'turn_agent'], term={'name': 'reach_exit'}, actions=ACTIONS[:6], rewards=[{'name': 'reach_exit_memory', 'reward_good': 5.0, 'reward_bad': -5.0}]),
}


SHIPPED_STATIC = [d + f for f in ('gv_keydoor.5x5.yaml', 'gv_keydoor.7x7.yaml', 'gv_keydoor.9x9.yaml', 'gv_crossing.5x5.yaml', 'gv_crossing.7x7.yaml',
                                    'gv_teleport.5x5.yaml', 'gv_teleport.7x7.yaml', 'gv_empty.4x4.yaml', 'gv_empty.8x8.yaml', 'gv_four_rooms.7x7.yaml',
                                    'gv_four_rooms.9x9.yaml', 'gv_nine_rooms.10x10.yaml', 'gv_nine_rooms.13x13.yaml')
                  for d in ('yaml/', 'gym_gridverse/registered_envs/')]


def generate(seed, run, tier):
    r = stream(seed, PROP, run, 'gen')
    ops = []
    if run % 100 == 50:
        # the shipped configurations themselves (both copies), with the environment's OWN dynamics and action list
        k = run // 100
        for j in range(4):
            ops.append(['shipped', SHIPPED_STATIC[(k * 4 + j) % len(SHIPPED_STATIC)], r.randrange(2**31)])
        return {'property': PROP, 'seed': seed, 'run': run, 'tier': tier, 'debug': r.random() < 0.5, 'ops': ops}
    for i in range(CASES_PER_RUN):
        name = R.RESETS[(run + i) % len(R.RESETS)] if r.random() < 0.7 else r.choice(R.RESETS)
        p = R.gen_params(r, name, valid_bias=1.0, hi=13)
        if name == 'dynamic_obstacles':
            p['num_obstacles'] = min(p['num_obstacles'], r.choice([0, 1, 2, 2, 3, 4, 6]))
        ops.append(['instance', p, r.choice(R.MODES), r.randrange(2**31)])
    return {'property': PROP, 'seed': seed, 'run': run, 'tier': tier, 'debug': r.random() < 0.5, 'ops': ops}


# ------------------------------------------------------------------ model planner


def goal_cells(w, name):
    if name in ('memory', 'memory_rooms'):
        bc = {c[1] for row in w['cells'] for c in row if c[0] == 'Beacon'}
        if len(bc) != 1:
            return []
        (b,) = bc
        return [(y, x) for y in range(w['h']) for x in range(w['w']) if w['cells'][y][x] == ('Exit', b)]
    return [(y, x) for y in range(w['h']) for x in range(w['w']) if w['cells'][y][x][0] == 'Exit']


def plan_static(w, name, fam):
    """BFS over model states for families without moving obstacles.
    returns (actions, script) or None"""
    goals = set(goal_cells(w, name))
    if not goals:
        return None
    chain, term = fam['chain'], fam['term']
    start = M.frozen(w)
    writes = any(c in ('pickndrop', 'actuate_door', 'actuate_box') for c in chain)

    def key(fw):
        return (fw['agent'], fw['cells']) if writes else fw['agent']

    def successors(fw):
        for a in fam['actions']:
            if a == 'PICK_N_DROP':
                f = M.front(fw)
                if not (M.inside(fw, *f) and fw['cells'][f[0]][f[1]][0] == 'Key' and fw['agent'][3][0] == 'NoneGridObject'):
                    continue
            if a == 'ACTUATE':
                f = M.front(fw)
                if not (M.inside(fw, *f) and fw['cells'][f[0]][f[1]][0] == 'Door' and fw['cells'][f[0]][f[1]][1] != 'OPEN'):
                    continue
            if a in ('PICK_N_DROP', 'ACTUATE'):
                m = M.mutable(fw)
            else:
                m = {'h': fw['h'], 'w': fw['w'], 'cells': fw['cells'], 'agent': list(fw['agent'])}
            outs = [(m, [])]
            for comp in chain:
                nxt = []
                for (mw, script) in outs:
                    if comp == 'teleport':
                        partners = M.telepod_partners(mw)
                        if partners:
                            for j, p in enumerate(partners):
                                m2 = dict(mw, agent=[p[0], p[1], mw['agent'][2], mw['agent'][3]])
                                nxt.append((m2, script + [j]))
                        else:
                            nxt.append((mw, script))
                    else:
                        M.DETERMINISTIC[comp](mw, a)
                        nxt.append((mw, script))
                outs = nxt
            for (mw, script) in outs:
                f1 = M.frozen(mw) if a in ('PICK_N_DROP', 'ACTUATE') else {'h': fw['h'], 'w': fw['w'], 'cells': fw['cells'], 'agent': (mw['agent'][0], mw['agent'][1], mw['agent'][2], mw['agent'][3])}
                yield a, script, f1

    seen = {key(start)}
    dq = deque([(start, [], [])])
    n = 0
    while dq:
        fw, acts, script = dq.popleft()
        n += 1
        if n > 60000:
            return None
        for a, sc, f1 in successors(fw):
            k = key(f1)
            if k in seen:
                continue
            seen.add(k)
            pos = (f1['agent'][0], f1['agent'][1])
            t = M.terminal(term, fw, a, f1)
            if t:
                if pos in goals:
                    return acts + [a], script + sc
                continue  # a terminating state that is not the goal: not allowed on the way
            dq.append((f1, acts + [a], script + sc))
    return None


def static_path(w, goals, avoid_exits):
    """shortest sequence of cells from the agent to a goal over non-blocking cells"""
    src = (w['agent'][0], w['agent'][1])
    prev = {src: None}
    dq = deque([src])
    while dq:
        p = dq.popleft()
        if p in goals:
            path = []
            while p is not None:
                path.append(p)
                p = prev[p]
            return path[::-1]
        for q in M.neighbours4(w, *p):
            c = w['cells'][q[0]][q[1]]
            if q in prev or blocks_movement(c):
                continue
            if avoid_exits and c[0] == 'Exit' and q not in goals:
                continue
            prev[q] = p
            dq.append(q)
    return None


def plan_obstacles(w, fam):
    """follow a static shortest path; resolve every obstacle move existentially (depth-first with
    backtracking over outcome combinations that keep the agent safe).  returns (actions, script)"""
    import itertools

    goals = set(goal_cells(w, 'dynamic_obstacles'))
    base = M.mutable(w)
    for (y, x) in M.obstacles(base):
        base['cells'][y][x] = ('Floor',)
    path = static_path(base, goals, False)
    if path is None:
        return None
    h, wd = w['h'], w['w']
    static = base['cells']
    budget = [4000]
    failed = set()

    def outcomes(obst, agent_pos):
        """all (new obstacle set, script) results of one move_obstacles application, safest first"""
        order = sorted(obst)  # row-major, as positions are collected before any movement
        results = []

        def rec(i, cur, floor_free, script):
            if len(results) > 40:
                return
            if i == len(order):
                results.append((frozenset(cur), list(script)))
                return
            o = order[i]
            cand = [q for q in ((o[0] - 1, o[1]), (o[0], o[1] + 1), (o[0] + 1, o[1]), (o[0], o[1] - 1))
                    if 0 <= q[0] < h and 0 <= q[1] < wd and static[q[0]][q[1]][0] == 'Floor' and q not in cur]
            if not cand:
                rec(i + 1, cur, floor_free, script)
                return
            idx = sorted(range(len(cand)), key=lambda j: (cand[j] == agent_pos, -abs(cand[j][0] - agent_pos[0]) - abs(cand[j][1] - agent_pos[1])))
            for j in idx:
                q = cand[j]
                cur2 = (cur - {o}) | {q}
                rec(i + 1, cur2, floor_free, script + [j])

        rec(0, set(obst), None, [])
        return [r for r in results if agent_pos not in r[0]]

    def dfs(pos, hd, obst, pi, depth):
        if budget[0] <= 0 or depth > 6 * len(path) + 10:
            return None
        budget[0] -= 1
        k = (pos, hd, obst, pi)
        if k in failed:
            return None
        nxt = path[pi + 1]
        want = (nxt[0] - pos[0], nxt[1] - pos[1])
        fwd = M.FWD[hd]
        if fwd == want:
            a, npos, nhd, npi = 'MOVE_FORWARD', nxt, hd, pi + 1
        else:
            # turn towards the next path cell (shortest turn)
            left = M.rot(hd, 3)
            a = 'TURN_LEFT' if M.FWD[left] == want else 'TURN_RIGHT'
            npos, nhd, npi = pos, M.rot(hd, 3 if a == 'TURN_LEFT' else 1), pi
        if a == 'MOVE_FORWARD' and npos in goals:
            # terminal by reach_exit; obstacles still move but cannot enter the exit cell
            outs = outcomes(obst, npos) or []
            if outs:
                return [a], outs[0][1]
            # every outcome puts an obstacle on the agent: still the exit is reached (agent on Exit cell);
            # obstacles only move onto Floor, never onto the exit
            return [a], []
        for (obst2, script) in outcomes(obst, npos):
            r = dfs(npos, nhd, obst2, npi, depth + 1)
            if r is not None:
                return [a] + r[0], script + r[1]
        failed.add(k)
        return None

    if (w['agent'][0], w['agent'][1]) in goals:
        return None
    return dfs((w['agent'][0], w['agent'][1]), w['agent'][2], frozenset(M.obstacles(w)), 0, 0)


# ------------------------------------------------------------------ real stack


def build_env(runner, w, fam):
    spec = {
        'kind': 'hand', 'world': w, 'pool_worlds': [], 'chain': fam['chain'], 'rewards': fam['rewards'], 'term': fam['term'],
        'obs': {'name': 'partially_occluded', 'area': [[-6, 0], [-3, 3]]}, 'actions': fam['actions'],
        'types': ['Floor', 'Wall', 'Exit', 'Door', 'Key', 'MovingObstacle', 'Telepod', 'Beacon'], 'colors': ['NONE', 'RED', 'GREEN', 'BLUE', 'YELLOW'],
        'via_factory': False,
    }
    return Client(0, spec, runner)


def run_plan(cl, w, plan, script, goals):
    """execute the plan on the real stack; returns None if the goal is reached as planned, else a reason"""
    inject_rng(cl.env, ScriptedRng(0, 'first', script=script))
    s = mk_state(w)
    for i, a in enumerate(plan):
        r = sut(cl.env.functional_step, s, action_of(a))
        if isinstance(r, Raised):
            return f'step {i} ({a}) raised {r!r}'
        s, reward, done = r
        last = i == len(plan) - 1
        if done and not last:
            return f'terminated early at step {i} ({a})'
        if last:
            pos = (s.agent.position.y, s.agent.position.x)
            if not done or pos not in goals:
                return f'after the plan: terminal={done}, agent at {pos}, goals {sorted(goals)}'
            if not reward > 0:
                return f'goal reached but reward {reward!r} is not positive'
    return None


def real_bfs(cl, w, goals, budget=12000):
    """search over the real functional_step (deterministic families). True / False / None (undecided)"""
    s0 = mk_state(w)
    seen = {state_key(s0)}
    dq = deque([s0])
    n = 0
    while dq:
        s = dq.popleft()
        for a in cl.actions:
            n += 1
            if n > budget:
                return None
            r = sut(cl.env.functional_step, s, action_of(a))
            if isinstance(r, Raised):
                continue
            s1, reward, done = r
            k = state_key(s1)
            if k in seen:
                continue
            seen.add(k)
            if done:
                if (s1.agent.position.y, s1.agent.position.x) in goals and reward > 0:
                    return True
                continue
            dq.append(s1)
    return False


def real_search_all_outcomes(cl, w, goals, budget=30000):
    """exhaustive search over the real functional_step for families with random dynamics: every action from every
    reachable state under EVERY outcome of every draw.  The outcome tree is discovered from the real code (the scripted
    generator logs the domain of each draw; untried outcomes are queued as longer scripts), so no model of the dynamics
    is involved.  True (a winning history exists) / False (none exists) / None (budget, or a draw that cannot be scripted)"""
    s0 = mk_state(w)
    seen = {state_key(s0)}
    dq = deque([s0])
    n = 0
    while dq:
        s = dq.popleft()
        for a in cl.actions:
            scripts = [[]]
            while scripts:
                script = scripts.pop()
                n += 1
                if n > budget:
                    return None
                g = ScriptedRng(0, 'first', script=script)
                inject_rng(cl.env, g)
                r = sut(cl.env.functional_step, s, action_of(a))
                draws = []
                for (m, dom, out) in g.log:
                    if m == 'choice':
                        draws.append((int(dom), int(out)))
                    elif m == 'integers':
                        draws.append((int(dom[1] - dom[0]), int(out - dom[0])))
                    else:
                        return None  # floats, samples, permutations: not enumerated here
                for i in range(len(script), len(draws)):
                    for alt in range(1, draws[i][0]):
                        scripts.append([d[1] for d in draws[:i]] + [alt])
                if isinstance(r, Raised):
                    continue
                s1, reward, done = r
                k = state_key(s1)
                if k in seen:
                    continue
                seen.add(k)
                if done:
                    if (s1.agent.position.y, s1.agent.position.x) in goals and reward > 0:
                        return True
                    continue
                dq.append(s1)
    return False


def _shipped(runner, ctx, i, path, seed):
    """a shipped configuration file, built by the library's own factory: reset with a seed, then search over the real
    step function with the environment's own action list (families with deterministic dynamics)"""
    import os

    from gvsim.sim import load_yaml_data

    cl = Client(0, {'kind': 'yaml', 'yaml': path, 'env_seed': seed}, runner)
    name = load_yaml_data(path)['reset_function']['name']
    S = sut(cl.env.functional_reset)
    if isinstance(S, Raised):
        ctx.count('sut_exception')
        return
    w = world_of(S)
    goals = set(goal_cells(w, name))
    ctx.state(wkey(w))
    ctx.log('shipped', os.path.basename(path), wkey(w))
    ctx.probe('shipped_configuration_searched')
    inject_rng(cl.env, ScriptedRng(0, 'first'))
    verdict = real_bfs(cl, w, goals, budget=40000)
    if verdict is True:
        ctx.count('won_by_real_search:shipped')
    elif verdict is None:
        ctx.undecided['real_search_budget'] += 1
    else:
        ctx.violate('winnable', 'unwinnable_initial_state', 'shipped:' + path.replace('gym_gridverse/', ''), 'no_winning_history_with_own_actions', i,
                    f'{path} (seed {seed}): exhaustive search over the real step function with the configured actions {cl.actions} finds no winning history; agent {w["agent"][:3]}')


def execute(record, ctx):
    runner = Sim({'clients': [], 'ops': [], 'property': PROP}, ctx, [])
    sample = None
    for i, op in enumerate(record['ops']):
        if op[0] == 'shipped':
            ctx.ticks += 1
            ctx.count('cases')
            _shipped(runner, ctx, i, op[1], op[2])
            continue
        (_, params, mode, seed) = op
        ctx.ticks += 1
        ctx.count('cases')
        name = params['name']
        out = R.call_reset(params, mode, seed, False)
        if isinstance(out, Raised):
            ctx.count('reset_rejected:' + name)
            ctx.log('instance', i, name, 'rejected')
            continue
        w = world_of(out)
        bad = R.validate(params, w)
        if bad is not None:
            ctx.count('malformed_initial_state:' + name)  # reported by C13; winnability is judged all the same
            if bad[0] in ('agent_outside', 'shape'):
                continue
        fam = FAMILY[name]
        goals = set(goal_cells(w, name))
        ctx.state(wkey(w))
        ctx.log('instance', i, name, wkey(w))
        if mode != 'real':
            ctx.fault('scripted_reset_' + mode)
        plan = plan_obstacles(w, fam) if 'move_obstacles' in fam['chain'] else plan_static(w, name, fam)
        cl = build_env(runner, w, fam)
        reason = 'the model found no plan'
        if plan is not None:
            acts, script = plan
            reason = run_plan(cl, w, acts, script, goals)
            if reason is None:
                ctx.count('won:' + name)
                ctx.probe('plan_len_ge_10') if len(acts) >= 10 else None
                if any(isinstance(x, int) for x in script):
                    ctx.fault('scripted_outcomes_replayed', len(script))
                if len(acts) >= 2:
                    ctx.distinct.add(sha(wkey(w)))
                if sample is None:
                    sample = {'params': params, 'rng': mode, 'agent': list(w['agent'][:3]), 'plan': acts[:40], 'scripted_outcomes': script[:20]}
                continue
            ctx.count('model_plan_failed_on_real_stack:' + name)
        if 'move_obstacles' in fam['chain']:
            # obstacles only ever trade places with Floor cells: with no exit at all, or none connected to the agent
            # over non-blocking cells once the obstacles are taken away, no outcome sequence can win
            base = M.mutable(w)
            for (oy, ox) in M.obstacles(base):
                base['cells'][oy][ox] = ('Floor',)
            if not goals:
                ctx.violate('winnable', 'unwinnable_initial_state', 'reset:' + name, 'no_goal', i, f'{params} ({mode}, seed {seed}): the initial state has no exit; agent {w["agent"][:3]}')
            elif static_path(base, goals, False) is None:
                ctx.violate('winnable', 'unwinnable_initial_state', 'reset:' + name, 'walled_off', i, f'{params} ({mode}, seed {seed}): no exit is connected to the agent even without the obstacles; agent {w["agent"][:3]}')
            else:
                # small instances are decided by exhaustive search over the real step function under every outcome
                verdict = real_search_all_outcomes(cl, w, goals) if w['h'] * w['w'] <= 36 and len(M.obstacles(w)) <= 3 else None
                if verdict is True:
                    ctx.count('won_by_real_search:' + name)
                    ctx.probe('stochastic_family_decided_by_exhaustive_search')
                elif verdict is False:
                    ctx.probe('stochastic_family_decided_by_exhaustive_search')
                    ctx.violate('winnable', 'unwinnable_initial_state', 'reset:' + name, f'every_outcome_sequence_loses_{w["h"]}x{w["w"]}_grid_{len(M.obstacles(w))}_obstacles', i,
                                f'{params} ({mode}, seed {seed}): {reason}; exhaustive search over the real step function under every outcome of every draw finds no winning history; agent {w["agent"][:3]}')
                else:
                    ctx.undecided['no_plan_stochastic_family'] += 1
            continue
        inject_rng(cl.env, ScriptedRng(0, 'first'))
        verdict = real_bfs(cl, w, goals)
        if verdict is True:
            ctx.count('won_by_real_search:' + name)
            continue
        if verdict is None:
            ctx.undecided['real_search_budget'] += 1
            continue
        # unwinnable: classify the cause
        m = M.mutable(w)
        cause = 'walled_off'
        if goals and static_path(m, goals, False) is not None:
            cause = 'goal_blocked_only_by_non_matching_exit' if name in ('memory', 'memory_rooms') else 'reachable_only_through_terminating_cell'
        elif not goals:
            cause = 'no_goal'
        ctx.violate('winnable', 'unwinnable_initial_state', 'reset:' + name, cause, i, f'{params} ({mode}, seed {seed}): {reason}; exhaustive search over the real step function finds no winning history; cause {cause}; agent {w["agent"][:3]}')
    ctx.sample = sample


def simplify(record):
    from gvsim.props.c13 import simplify as s13

    if any(op[0] == 'shipped' for op in record['ops']):
        return  # nothing to simplify inside a shipped-file case (dropping ops is the minimiser's own business)

    for rec in s13({'ops': [op + [False] for op in record['ops']], **{k: v for k, v in record.items() if k != 'ops'}}):
        rec = dict(rec)
        rec['ops'] = [op[:4] for op in rec['ops']]
        yield rec
