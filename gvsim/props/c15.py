"""C15 - numeric representations always lie inside their declared spaces (engine: gvsim.sim, profile `repr`)."""
import numpy as np

from gvsim import model as M
from gvsim import worlds as W
from gvsim.kernel import stream
from gvsim.lib import BUILTIN_TYPES, COLORS, STATUSES
from gvsim.props import common
from gvsim.sim import Raised, Sim, sut

PROP = 'C15'
TIERS = {'quick': {'runs': 1200, 'wall': 100}, 'thorough': {'runs': 30000, 'wall': 1500}}
REACH = ['agent_in_corner', 'holding_item', 'gym_layer_checked', 'gym_representation_switched']  # probes / faults that must fire in every batch (reach gaps are reported in the evidence)
RULE = ('one run = one client: a declared space (random subset of the registered object types - no Box when the state is '
        'represented -, random colour subset, grid >= 2x2, odd view width) with a member world that uses every declared '
        'type, door status and colour, or a shipped configuration; a seeded history walks the agent into corners, picks / '
        'drops / swaps every holdable and opens doors and boxes; after every step the state and the observation are '
        'converted by the default, no-overlap and compact representations and every array is checked key by key against '
        'the declared space (own shape / dtype / bounds check and Space.contains) and against the gym Dict/Box space; '
        'evaluations = conversions; distinct = distinct (representation, state or observation) digests; non-trivial = '
        'the converted value contains at least one non-floor, non-wall object')
REAL = common.REAL_SIM + ['gym_gridverse.representations (state and observation representations, spaces)', 'gym_gridverse.gym.outer_space_to_gym_space', 'gym 0.26.2 Dict/Box spaces']
STUB = common.STUB_SIM
ASSUMPTIONS = ['member worlds use only declared types and colours (box contents included)', 'views have their origin inside (ObservationSpace requirement)']
REPRS = ['default', 'no-overlap', 'compact']


def full_member_world(r, spec):
    """make sure every declared type, door status and colour occurs (as far as the grid has room)"""
    w = spec['world']
    wants = []
    for t in spec['types']:
        if t in ('Floor',) or t == spec['unique']:
            continue
        if t == 'Door':
            for st in STATUSES:
                wants.append(['Door', st, r.choice(spec['colors'])])
        elif t in ('Key', 'Exit', 'Telepod', 'Beacon'):
            for c in spec['colors']:
                if t == 'Beacon' and spec.get('beacon'):
                    continue
                wants.append([t, c])
        elif t == 'Box':
            inner = [x for x in spec['types'] if x not in ('Box', 'Door', spec['unique']) and not (x == 'Beacon' and spec.get('beacon'))] or ['Floor']
            wants.append(W.gen_obj(r, 'Box', spec['colors'], inner=inner))
        else:
            wants.append([t])
    r.shuffle(wants)
    cells = [(y, x) for y in range(w['h']) for x in range(w['w']) if (y, x) != (w['agent'][0], w['agent'][1])
             and w['cells'][y][x][0] != spec['unique'] and not (spec.get('beacon') and w['cells'][y][x][0] == 'Beacon')]
    r.shuffle(cells)
    for (y, x), d in zip(cells, wants):
        w['cells'][y][x] = d


def generate(seed, run, tier):
    r = stream(seed, PROP, run, 'gen')
    rec = common.base_record(PROP, seed, run, tier)
    rec['debug'] = r.random() < 0.5
    big = tier == 'thorough'
    if r.random() < 0.3:
        spec = W.gen_yaml_client(r, [W.SHIPPED[run % len(W.SHIPPED)]] if r.random() < 0.7 else None)
    else:
        spec = W.gen_hand_client(r, hmax=8 if big else 6, wmax=8 if big else 6, min_hw=2, n_pool=0, valid_start=True)
        if 'Box' in spec['types'] and r.random() < 0.7:
            # without Box the state can be represented too
            spec = _without_box(r, spec)
        full_member_world(r, spec)
        for must in ('move_agent', 'turn_agent', 'pickndrop', 'actuate_door'):
            if must not in spec['chain']:
                spec['chain'].append(must)
        spec['actions'] = list(W.ACTIONS)
    rec['clients'] = [spec]
    n = r.randint(25, 70 if not big else 200)
    ops = [[0, 'set_seed', spec['env_seed']], [0, 'reset'], [0, 'convert']]
    while len(ops) < n:
        m = r.random()
        if m < 0.35:
            ops.append([0, 'step', r.randrange(64)])
        elif m < 0.6:
            # into a corner: hug an edge, then turn and hug the next
            for _ in range(r.randint(2, 7)):
                ops.append([0, 'guided', 'face_out', 'Floor', 0])
            ops.append([0, 'step', r.choice([4, 5])])
        else:
            t = r.choice(['Key', 'Door', 'Box', 'Floor'])
            for _ in range(r.randint(1, 6)):
                ops.append([0, 'guided', 'facing', t, r.randrange(64)])
        if r.random() < 0.12:
            # the gym layer: switch the installed representation, then convert again
            ops.append([0, 'gym_switch', r.choice(['observation', 'observation', 'state']), r.choice(REPRS)])
        ops.append([0, 'convert'])
    rec['ops'] = ops
    return rec


def _without_box(r, spec):
    spec['types'] = [t for t in spec['types'] if t != 'Box']
    if spec['unique'] == 'Box':
        spec['unique'] = None
    h, w = spec['world']['h'], spec['world']['w']
    bc = None
    if spec.get('beacon'):
        bc = next((c[1] for row in spec['world']['cells'] for c in row if c[0] == 'Beacon'), None)
        if bc is None:
            spec['beacon'] = False
    spec['world'] = W.gen_world(r, h, w, spec['types'], spec['colors'], unique=spec['unique'], beacon_colour=bc, valid_start=True)
    if not W.precond_ok(spec['unique'], spec.get('beacon'), spec['world']):
        spec['beacon'] = False
        spec['rewards'] = [{'name': 'living_reward'}]
        spec['world'] = W.gen_world(r, h, w, spec['types'], spec['colors'], unique=spec['unique'], valid_start=True)
    spec['rewards'] = [p for p in spec['rewards'] if _ok_reward(p, spec)] or [{'name': 'living_reward'}]
    if spec['term'].get('object_type') == 'Box' or 'parts' in spec['term']:
        spec['term'] = {'name': 'reach_exit'}
    return spec


def _ok_reward(p, spec):
    if 'parts' in p:
        return False
    if p.get('object_type') == 'Box':
        return False
    if p['name'] == 'reach_exit_memory' and not spec.get('beacon'):
        return False
    if p['name'] in ('proportional_to_distance', 'getting_closer', 'getting_closer_shortest_path') and p.get('object_type') != spec['unique']:
        return False
    return True


def check_arrays(sim, what, rname, space, arrays, gym_space):
    """key by key: shape, dtype kind, bounds - by an own check and by Space.contains; gym space too"""
    from gym_gridverse.representations.spaces import SpaceType

    if sorted(space.keys()) != sorted(arrays.keys()):
        sim.violate('repr', 'keys_differ', f'{what}:{rname}', '-', f'{sorted(arrays)} vs {sorted(space)}')
        return False
    for k in sorted(space):
        sp, x = space[k], np.asarray(arrays[k])
        if x.shape != sp.lower_bound.shape:
            sim.violate('repr', 'shape', f'{what}:{rname}', k, f'{x.shape} vs {sp.lower_bound.shape}')
            return False
        want_float = sp.space_type is SpaceType.CONTINUOUS
        if want_float != bool(np.issubdtype(x.dtype, np.floating)) or (not want_float and not np.issubdtype(x.dtype, np.integer)):
            sim.violate('repr', 'dtype', f'{what}:{rname}', k, f'{x.dtype} for {sp.space_type}')
            return False
        if np.any(x < sp.lower_bound) or np.any(x > sp.upper_bound) or not np.all(np.isfinite(x)):
            idx = tuple(int(i) for i in np.argwhere((x < sp.lower_bound) | (x > sp.upper_bound) | ~np.isfinite(x))[0])
            sim.violate('repr', 'out_of_bounds', f'{what}:{rname}', k, f'{k}{list(idx)} = {x[idx]!r} outside [{sp.lower_bound[idx]!r}, {sp.upper_bound[idx]!r}]')
            return False
        c = sut(sp.contains, x)
        if isinstance(c, Raised) or not c:
            sim.violate('repr', 'space_contains_rejects', f'{what}:{rname}', k, f'Space.contains = {c!r} although shape/dtype/bounds conform')
            return False
    g = sut(gym_space.contains, arrays)
    if isinstance(g, Raised) or not g:
        sim.violate('repr', 'gym_space_rejects', f'{what}:{rname}', '-', f'gym space contains = {g!r}')
        return False
    return True


class ReprSim(Sim):
    def __init__(self, record, ctx):
        super().__init__(record, ctx, [])
        from gym_gridverse.gym import outer_space_to_gym_space
        from gym_gridverse.representations.observation_representations import make_observation_representation
        from gym_gridverse.representations.state_representations import make_state_representation

        cl = self.clients[0]
        self.reps = []
        for name in REPRS:
            s = sut(make_state_representation, name, cl.env.state_space)
            if isinstance(s, Raised):
                if 'Box' not in cl.mspec['types']:
                    self.violate('repr', 'cannot_build', 'state:' + name, s.type, repr(s))
            else:
                self.reps.append(('state', name, s, outer_space_to_gym_space(s.space)))
            o = sut(make_observation_representation, name, cl.env.observation_space)
            if isinstance(o, Raised):
                self.violate('repr', 'cannot_build', 'observation:' + name, o.type, repr(o))
            else:
                self.reps.append(('observation', name, o, outer_space_to_gym_space(o.space)))

    def _gym(self, cl):
        """a gym environment around the same inner environment (built on first use)"""
        if not hasattr(self, 'gym'):
            from gym_gridverse.gym import GymEnvironment
            from gym_gridverse.outer_env import OuterEnv
            from gym_gridverse.representations.observation_representations import make_observation_representation

            g = sut(lambda: GymEnvironment(OuterEnv(cl.env, observation_representation=make_observation_representation('default', cl.env.observation_space))))
            self.gym = None if isinstance(g, Raised) else g
            self.gym_names = {'observation': 'default', 'state': None}
        return self.gym

    def op_gym_switch(self, cl, which, name):
        g = self._gym(cl)
        if g is None:
            return
        r = sut(getattr(g, f'set_{which}_representation'), name)
        if isinstance(r, Raised):
            if which == 'observation' or 'Box' not in cl.mspec['types']:
                self.violate('repr', 'gym_switch_raised', f'gym:{which}:{name}', r.type, repr(r))
            return
        self.gym_names[which] = name
        self.ctx.fault('gym_representation_switched')

    def check_gym(self, cl):
        """what the gym layer hands out lies in the space it advertises at that moment"""
        from gvsim.props.c20 import in_gym_space, snap

        g = self._gym(cl)
        if g is None or not cl.started:
            return
        for which in ('observation', 'state'):
            name = self.gym_names[which]
            if name is None:
                continue
            arr = snap(sut(lambda: getattr(g, which)))
            if isinstance(arr, Raised):
                self.violate('repr', 'gym_read_raised', f'gym:{which}:{name}', arr.type, repr(arr))
                return
            ok, why = in_gym_space(getattr(g, which + '_space'), arr)
            self.ctx.count('cases')
            if not ok:
                self.violate('repr', 'outside_advertised_gym_space', f'gym:{which}:{name}', why, f'GymEnvironment.{which} lies outside GymEnvironment.{which}_space ({why}) with representation {name}')
                return
        self.ctx.probe('gym_layer_checked')

    def op_convert(self, cl):
        from gvsim.lib import sha, state_key

        if not cl.started:
            return
        s = cl.env.state
        o = sut(lambda: cl.env.observation)
        for what, name, rep, gsp in self.reps:
            x = s if what == 'state' else o
            if isinstance(x, Raised):
                continue
            arr = sut(rep.convert, x)
            self.ctx.count('cases')
            if isinstance(arr, Raised):
                self.violate('repr', 'convert_raised', f'{what}:{name}', arr.type, repr(arr))
                continue
            self.ctx.log('convert', what, name, sha([a.tolist() for _, a in sorted(arr.items())]))
            if check_arrays(self, what, name, rep.space, arr, gsp):
                k = state_key(x)
                if any(c[0] not in ('Floor', 'Wall', 'Hidden') for row in k[2] for c in row):
                    self.ctx.distinct.add(sha((what, name, k)))
        self.check_gym(cl)
        w = s.grid.shape
        p = s.agent.position
        if (p.y in (0, w.height - 1)) and (p.x in (0, w.width - 1)):
            self.ctx.probe('agent_in_corner')
        if type(s.agent.grid_object).__name__ != 'NoneGridObject':
            self.ctx.probe('holding_item')


def execute(record, ctx):
    sim = ReprSim(record, ctx)
    sim.run()
    cl = record['clients'][0]
    ctx.sample = {'client': cl.get('yaml') or {'types': cl['types'], 'colors': cl['colors'], 'shape': [cl['world']['h'], cl['world']['w']], 'view': cl['obs']['area']},
                  'ops_head': record['ops'][:10], 'n_ops': len(record['ops'])}


simplify = common.simplify_single
