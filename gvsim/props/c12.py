"""C12 - rewards and termination mean what they say (engine: gvsim.sim, profile `rewards`)."""
import math

from gvsim import model as M
from gvsim.kernel import stream
from gvsim.lib import action_of, world_of
from gvsim.props import common
from gvsim.sim import Raised, Sim, sut

PROP = 'C12'
TIERS = {'quick': {'runs': 2400, 'wall': 100}, 'thorough': {'runs': 60000, 'wall': 1500}}
REACH = ['nondefault:actuate_door', 'nondefault:pickndrop', 'nondefault:reach_exit_memory', 'nondefault:getting_closer_shortest_path', 'nondefault:bump_into_wall', 'term_fired:reduce_all', 'exit_reached', 'knob:components_through_factories', 'knob:maze', 'knob:generic_reduce_composite']  # probes / faults that must fire in every batch (reach gaps are reported in the evidence)
RULE = ('one run = one client (random composition: 1-3 reward components incl. nested reduce_sum with random float '
        'parameters, a termination tree of depth <= 3; or a shipped configuration) under a seeded op list of stateful '
        'steps, functional steps, and direct component calls on (state, action, ARBITRARY next state) triples; each '
        'component value, each composite and the step\'s (reward, flag) are compared with the documented formula '
        'evaluated on (state, action, returned next state); distinct = executed-trace digest; non-trivial = >= 10 '
        'ops and >= 1 component evaluation with a non-default outcome (reward on / bump / closer / further / door / '
        'pick / drop / memory good / bad / termination fired)')
REAL = common.REAL_SIM
STUB = common.STUB_SIM
ASSUMPTIONS = ['states with the agent standing on a Wall are not used for the bump oracle (unreachable by C08)',
               'memory rewards are judged on states whose beacons share one colour', 'float comparison with rel/abs tolerance 1e-9']


def close(a, b):
    if isinstance(a, bool) or isinstance(b, bool):
        return bool(a) == bool(b)
    try:
        return math.isclose(float(a), float(b), rel_tol=1e-9, abs_tol=1e-9) or (math.isinf(float(a)) and float(a) == float(b))
    except (TypeError, ValueError):
        return False


def generate(seed, run, tier):
    r = stream(seed, PROP, run, 'gen')
    rec = common.base_record(PROP, seed, run, tier)
    rec['debug'] = r.random() < 0.5
    big = tier == 'thorough'
    spec = common.pick_client(r, p_yaml=0.25, hmax=8 if big else 6, wmax=8 if big else 6, n_pool=5)
    if spec['kind'] == 'hand' and spec.get('world') is not None and 'Door' in spec['types']:
        from gvsim.props.c10 import plant_door_scene

        for wv in [spec['world']] + spec['pool_worlds']:
            if r.random() < 0.4:
                plant_door_scene(r, wv, spec['colors'], spec['unique'], spec['types'])
    if spec['kind'] == 'hand' and spec['env_seed'] % 4 == 0:
        # the generic composite `reduce` with another reduction than the sum, assembled in code (YAML cannot say it)
        spec['rewards'] = [{'name': 'reduce', 'reduction': ['max', 'min', 'first', 'last'][(spec['env_seed'] // 4) % 4], 'parts': spec['rewards']}]
        spec.setdefault('knobs', []).append('generic_reduce_composite')
    rec['clients'] = [spec]
    n = r.randint(30, 120 if not big else 300)

    def comp(r):
        return [[0, 'component', r.choice(['reward', 'term']), r.randrange(8), r.randrange(64), r.randrange(64), r.randrange(64)]
                for _ in range(r.randint(1, 4))]

    rec['ops'] = common.world_ops(r, spec, n, p_fault=0.25 if spec['kind'] == 'hand' else 0.0, fault_gen=comp,
                                  weights=dict(fobs=0, read_obs=0.1, turnpair=0.1, guided=2))
    if spec['kind'] == 'yaml':
        k = r.randrange(2, max(3, len(rec['ops']) // 2))
        rec['ops'][k:k] = [[0, 'guided', 'on', 'Exit', r.randrange(64)] for _ in range(20)]
    return rec


def sub(spec_list_or_tree, path):
    """sub-spec addressed by a proxy path"""
    node = {'name': 'reduce_sum', 'parts': spec_list_or_tree} if isinstance(spec_list_or_tree, list) else spec_list_or_tree
    for i in path:
        node = node['parts'][i]
    return node


def uses(spec, name):
    return spec['name'] == name or any(uses(p, name) for p in spec.get('parts', []))


class Rewards:
    def _skip(self, spec, w0, w1):
        """carve-outs: inputs on which the documented formula makes no claim"""
        for w in (w0, w1):
            if not M.inside(w, w['agent'][0], w['agent'][1]):
                return True
        if uses(spec, 'bump_into_wall') and M.cell_at_agent(w0)[0] == 'Wall':
            return True
        return False

    def _probe(self, spec, v):
        n = spec['name']
        ctx = self.sim.ctx
        if n in ('reduce_sum', 'reduce', 'living_reward'):
            return
        if n in ('reduce_any', 'reduce_all', 'reach_exit', 'bump_moving_obstacle', 'bump_into_wall', 'overlap') and isinstance(v, (bool,)) or type(v).__name__ == 'bool_':
            if v:
                ctx.probe('term_fired:' + n)
            return
        dflt = {'overlap': spec.get('reward_off', 0.0), 'reach_exit': spec.get('reward_off', 0.0)}.get(n, 0.0)
        if not close(v, dflt):
            ctx.probe('nondefault:' + n)

    def on_step(self, cl, ev):
        sim = self.sim
        if isinstance(ev['out'], Raised):
            return
        w0, w1, a = ev['w0'], ev['w1'], ev['action']
        ms = cl.mspec
        total_spec = {'name': 'reduce_sum', 'parts': ms['rewards']}
        if any(p['name'].startswith('coin_env:') for p in ms['rewards']):
            return
        if self._skip(total_spec, w0, w1) or self._skip(ms['term'], w0, w1):
            return
        # parts (proxied stacks)
        for path, v in ev['rlog']:
            s = sub(ms['rewards'], path)
            if self._skip(s, w0, w1):
                continue
            exp = M.reward(s, w0, a, w1)
            self._probe(s, v)
            if not close(v, exp):
                sim.violate('rewards', 'component_value', 'reward:' + s['name'], _rcause(s, w0, a, w1), f'{s} on {a}: {v!r}, documented {exp!r}')
                return
        for path, v in ev['tlog']:
            s = sub(ms['term'], path)
            exp = M.terminal(s, w0, a, w1)
            self._probe(s, bool(v))
            if bool(v) != exp:
                sim.violate('rewards', 'component_value', 'term:' + s['name'], _rcause(s, w0, a, w1), f'{s} on {a}: {v!r}, documented {exp!r}')
                return
        # the step's reward and flag = composites on exactly (state, action, returned next state)
        exp_r = M.reward(total_spec, w0, a, w1)
        exp_t = M.terminal(ms['term'], w0, a, w1)
        if not close(ev['reward'], exp_r):
            sim.violate('rewards', 'step_reward', 'functional_step', _rcause(total_spec, w0, a, w1), f'{a}: reward {ev["reward"]!r}, documented {exp_r!r} for {ms["rewards"]}')
            return
        if bool(ev['terminal']) != exp_t:
            sim.violate('rewards', 'step_terminal', 'functional_step', _rcause(ms['term'], w0, a, w1), f'{a}: terminal {ev["terminal"]!r}, documented {exp_t!r} for {ms["term"]}')
            return
        if exp_t:
            sim.ctx.probe('terminal_step')
        # exit reward is paid on exactly the steps on which exit-termination fires
        rx = [p for p in ms['rewards'] if p['name'] == 'reach_exit']
        if rx and uses(ms['term'], 'reach_exit') and not cl.proxied:
            on_exit = M.cell_at_agent(w1)[0] == 'Exit'
            others = {'name': 'reduce_sum', 'parts': [p for p in ms['rewards'] if p['name'] != 'reach_exit']}
            paid = ev['reward'] - M.reward(others, w0, a, w1)
            want = sum(p.get('reward_on', 1.0) if on_exit else p.get('reward_off', 0.0) for p in rx)
            if not close(paid, want) or (on_exit and not ev['terminal']):
                sim.violate('rewards', 'exit_reward_vs_termination', 'trajectory', 'on_exit' if on_exit else 'off_exit', f'{a}: exit part paid {paid!r}, want {want!r}, terminal {ev["terminal"]!r}')
            if on_exit:
                sim.ctx.probe('exit_reached')


def _rcause(s, w0, a, w1):
    f = M.front(w0)
    where = 'front_off_grid' if not M.inside(w0, *f) else 'front_' + w0['cells'][f[0]][f[1]][0]
    return f'{a}_{where}'


def op_component(sim, cl, kind, j, i, k, i2):
    """direct call of one reward / termination component on an arbitrary triple, asked twice"""
    if not cl.proxied or not cl.pool:
        return
    s0 = cl.pool[i % len(cl.pool)]
    s1 = cl.pool[i2 % len(cl.pool)]
    a = cl.actions[k % len(cl.actions)]
    w0, w1 = world_of(s0), world_of(s1)
    mon = sim.monitors[0]
    if kind == 'reward':
        parts = cl.mspec['rewards']
        j = j % len(parts)
        spec, f = parts[j], cl.rparts[j]
    else:
        spec, f = cl.mspec['term'], cl.tfun
    if mon._skip(spec, w0, w1):
        return
    cl.rlog.clear()
    cl.tlog.clear()
    v1 = sut(f, s0, action_of(a), s1)
    v2 = sut(f, s0, action_of(a), s1)
    sim.ctx.count('component_calls')
    sim.ctx.log('component', kind, j, a, repr(v1))
    if isinstance(v1, Raised) or isinstance(v2, Raised):
        sim.violate('rewards', 'component_raised', f'{kind}:{spec["name"]}', _rcause(spec, w0, a, w1), f'{spec} on arbitrary triple raised {v1!r}')
        return
    if world_of(s0) != w0 or world_of(s1) != w1:
        sim.violate('rewards', 'component_mutated_argument', f'{kind}:{spec["name"]}', '-', f'{spec}')
        return
    if not close(v1, v2):
        sim.violate('rewards', 'not_deterministic', f'{kind}:{spec["name"]}', '-', f'{spec}: {v1!r} then {v2!r}')
        return
    exp = M.reward(spec, w0, a, w1) if kind == 'reward' else M.terminal(spec, w0, a, w1)
    mon._probe(spec, v1)
    if not close(v1, exp):
        sim.violate('rewards', 'component_value', f'{kind}:{spec["name"]}', _rcause(spec, w0, a, w1) + '_arbitrary_next_state', f'{spec} on {a}: {v1!r}, documented {exp!r}')


def execute(record, ctx):
    sim = Sim(record, ctx, [Rewards()])
    sim.op_component = lambda cl, *a: op_component(sim, cl, *a)
    sim.run()
    nd = sum(n for k, n in ctx.stats.items() if k.startswith('probe:nondefault') or k.startswith('probe:term_fired'))
    if ctx.ticks >= 10 and nd > 0:
        ctx.distinct.add(ctx.trace_digest())
    cl = record['clients'][0]
    ctx.sample = {'client': {'yaml': cl['yaml']} if cl['kind'] == 'yaml' else {'rewards': cl['rewards'], 'term': cl['term'], 'chain': cl['chain'], 'reset': (cl.get('reset') or {}).get('name')},
                  'ops_head': record['ops'][:10], 'n_ops': len(record['ops'])}


simplify = common.simplify_single
