"""Shared generator pieces for the properties that run on gvsim.sim."""
from gvsim import worlds as W
from gvsim.kernel import stream
from gvsim.lib import ACTIONS

REAL_SIM = [
    'gym_gridverse.envs.gridworld.GridWorld / InnerEnv (stateful and functional interface)',
    'gym_gridverse.envs.transition_functions (chain, move_agent, turn_agent, pickndrop, move_obstacles, actuate_door, actuate_box, teleport, factory, transition_with_copy)',
    'gym_gridverse.envs.reward_functions, terminating_functions, observation_functions, visibility_functions, reset_functions',
    'gym_gridverse.envs.yaml.factory + schemas (for clients built from shipped YAML), PyYAML',
    'gym_gridverse.grid, grid_object, agent, geometry, spaces, rng, debugging, utils.fast_copy, utils.raytracing',
    'numpy.random.Generator',
]
STUB_SIM = ['constant reset function returning a copy of a generated free-form world (user-supplied component seam)',
            'recording proxies around injected components (call-through)']


def world_ops(r, spec, n_ops, *, p_fault=0.0, fault_gen=None, weights=None, start=True):
    """ops of one client (index 0) for a single-client run"""
    ops = []
    if start:
        ops.append([0, 'set_seed', spec.get('env_seed', 0)])
        ops.append([0, 'reset'])
    w = dict(step=4, fstep=4, guided=2, fobs=1, read_obs=1, turnpair=0.4, reset=0.2)
    if weights:
        w.update(weights)
    kinds = list(w)
    ws = [w[k] for k in kinds]
    types = spec.get('types') or ['Key', 'Door', 'Exit', 'Box', 'Floor']
    if spec.get('world') is not None and (spec.get('strip') or r.random() < 0.04):
        # one action from every pose of one map (always on the long strips, occasionally elsewhere)
        for a in r.sample(['ACTUATE', 'PICK_N_DROP', 'MOVE_FORWARD', 'MOVE_LEFT', 'TURN_LEFT'], 2 if spec.get('strip') else 1):
            ops.append([0, 'scan', a, r.randrange(64)])
    while len(ops) < n_ops:
        if fault_gen is not None and r.random() < p_fault:
            ops.extend(fault_gen(r))
            continue
        k = r.choices(kinds, ws)[0]
        if k == 'step':
            ops.append([0, 'step', r.randrange(64)])
        elif k == 'fstep':
            i = r.randrange(64)
            if r.random() < 0.4:
                # every action of the action space on one pool state
                for a in range(len(spec.get('actions', ACTIONS))):
                    ops.append([0, 'fstep', i, a])
            else:
                ops.append([0, 'fstep', i, r.randrange(64)])
        elif k == 'guided':
            goal = r.choice(['face_out', 'facing', 'facing', 'on'])
            tn = r.choice(types)
            for _ in range(r.randint(1, 6)):
                ops.append([0, 'guided', goal, tn, r.randrange(64)])
            if goal == 'face_out':
                # act while facing outward on an edge
                for a in r.sample(range(8), 3):
                    ops.append([0, 'step', a])
        elif k == 'fobs':
            ops.append([0, 'fobs', r.randrange(64)])
        elif k == 'read_obs':
            ops.append([0, 'read_obs', r.choice([1, 1, 2, 3])])
        elif k == 'turnpair':
            if r.random() < 0.5:
                ops.append([0, 'turns', r.choice(['LR', 'RL'])])
            else:
                ops.append([0, 'turns', r.choice(['LLLL', 'RRRR'])])
        elif k == 'reset':
            ops.append([0, 'reset'])
    return ops


def pick_client(r, *, p_yaml=0.25, yaml_names=None, p_reset=0.12, reset_names=None, **kw):
    m = r.random()
    if m < p_yaml:
        return W.gen_yaml_client(r, yaml_names)
    if m < p_yaml + p_reset:
        # random composition of built-in components around a built-in reset function
        return W.gen_reset_client(r, r.choice(reset_names) if reset_names else None, stochastic_obs=not kw.get('deterministic_obs', False))
    return W.gen_hand_client(r, **kw)


def precond_ok(spec, world):
    """documented preconditions of the composed components hold in `world`"""
    u = spec.get('unique')
    if u is not None:
        n = sum(1 for row in world['cells'] for c in row if c[0] == u)
        if n != 1:
            return False
    if spec.get('beacon'):
        cols = {c[1] for row in world['cells'] for c in row if c[0] == 'Beacon'}
        if len(cols) != 1:
            return False
    return True


def simplify_single(record):
    """structural candidates for single-client records with free-form worlds"""
    import copy

    cl = record['clients'][0]
    if cl['kind'] != 'hand' or cl.get('world') is None:
        return
    # drop pool worlds
    for i in range(len(cl.get('pool_worlds', []))):
        r2 = copy.deepcopy(record)
        del r2['clients'][0]['pool_worlds'][i]
        yield r2
    # simplify composition
    for key in ('rewards',):
        if len(cl[key]) > 1:
            for i in range(len(cl[key])):
                r2 = copy.deepcopy(record)
                del r2['clients'][0][key][i]
                yield r2
    if cl.get('nest'):
        r2 = copy.deepcopy(record)
        del r2['clients'][0]['nest']
        yield r2
    elif len(cl['chain']) > 1:
        for i in range(len(cl['chain'])):
            r2 = copy.deepcopy(record)
            del r2['clients'][0]['chain'][i]
            yield r2
    if cl.get('world') is not None:
        for wv in W.simplify_world(cl['world']):
            if not precond_ok(cl, wv):
                continue
            if any((p['h'], p['w']) != (wv['h'], wv['w']) for p in cl.get('pool_worlds', [])):
                continue
            r2 = copy.deepcopy(record)
            r2['clients'][0]['world'] = wv
            yield r2
    for i, pw in enumerate(cl.get('pool_worlds', [])):
        for wv in W.simplify_world(pw):
            if (wv['h'], wv['w']) != (pw['h'], pw['w']) or not precond_ok(cl, wv):
                continue
            r2 = copy.deepcopy(record)
            r2['clients'][0]['pool_worlds'][i] = wv
            yield r2


def knobs(prop, seed, run):
    """process-wide construction knobs of one run (how the harness concretises worlds; see lib.mk_state / mk_obj)"""
    return {'alias_objects': stream(seed, prop, run, 'alias').random() < 0.15,
            'grid_from_shape': stream(seed, prop, run, 'from_shape').random() < 0.12,
            'door_status_assigned': stream(seed, prop, run, 'door_assign').random() < 0.12,
            'held_item_assigned': stream(seed, prop, run, 'held_assign').random() < 0.15,
            'numpy_coordinates': stream(seed, prop, run, 'numpy_coords').random() < 0.12}


KNOB_PROBES = {'alias_objects': 'knob:object_identity_aliasing', 'grid_from_shape': 'knob:grid_built_with_from_shape',
               'door_status_assigned': 'knob:door_status_assigned_after_construction', 'held_item_assigned': 'knob:held_item_assigned_after_construction',
               'numpy_coordinates': 'knob:numpy_integer_coordinates'}


def probe_knobs(record, ctx):
    """for checks that do not run a Sim over the record (the Sim constructor does this itself)"""
    for k, name in KNOB_PROBES.items():
        if record.get(k):
            ctx.probe(name)


def base_record(prop, seed, run, tier):
    rec = {'property': prop, 'seed': seed, 'run': run, 'tier': tier, 'debug': True, 'clients': [], 'ops': []}
    rec.update(knobs(prop, seed, run))
    return rec


def seam_break(ev):
    """for proxied chains: the copy handed to the first component must equal the step's input, each component
    must start from what the previous one left, and the returned state must be what the last one left.
    Returns None or (where, before-world, after-world)."""
    log = ev.get('complog') or []
    if not log or 'w1' not in ev:
        return None
    if log[0][1] != ev['w0']:
        return ('input_vs_first_component', ev['w0'], log[0][1])
    for (a, b) in zip(log, log[1:]):
        if a[2] != b[1]:
            return (f'between_{a[0]}_and_{b[0]}', a[2], b[1])
    if log[-1][2] != ev['w1']:
        return ('last_component_vs_returned_state', log[-1][2], ev['w1'])
    return None


def world_diff(a, b):
    if (a['h'], a['w']) != (b['h'], b['w']):
        return 'shape'
    if a['agent'][:3] != b['agent'][:3]:
        return 'agent_pose'
    if a['agent'][3] != b['agent'][3]:
        return 'held_' + a['agent'][3][0]
    for y in range(a['h']):
        for x in range(a['w']):
            if a['cells'][y][x] != b['cells'][y][x]:
                return 'cell_' + a['cells'][y][x][0]
    return 'none'
