"""C10 - doors, keys and boxes respond only to a faced ACTUATE (engine: gvsim.sim, profile `actuation`)."""
from gvsim import model as M
from gvsim.kernel import stream
from gvsim.props import common
from gvsim.sim import Raised, Sim

PROP = 'C10'
TIERS = {'quick': {'runs': 2400, 'wall': 100}, 'thorough': {'runs': 60000, 'wall': 1500}}
REACH = ['locked_matching_key', 'locked_wrong_key', 'locked_no_key', 'actuate_box', 'actuate_off_grid', 'caller_deepcopy_then_inplace_steps', 'knob:long_strip', 'knob:grid_built_with_from_shape', 'knob:door_status_assigned_after_construction']  # probes / faults that must fire in every batch (reach gaps are reported in the evidence)
RULE = ('one run = one client (random composition with actuate_door / actuate_box biased in, worlds rich in doors of '
        'every status and colour, keys of every colour, boxes; or a shipped key-door configuration with goto-key / '
        'goto-door policies) under a seeded op list; distinct = executed-trace digest; non-trivial = >=10 ops and at '
        'least one actuation probe (closed door opened, locked door with matching / wrong / no key, box opened, '
        'actuate facing outward) hit')
REAL = common.REAL_SIM
STUB = common.STUB_SIM
ASSUMPTIONS = ['raising steps are judged by C01']


def generate(seed, run, tier):
    r = stream(seed, PROP, run, 'gen')
    rec = common.base_record(PROP, seed, run, tier)
    rec['debug'] = r.random() < 0.5
    big = tier == 'thorough'
    names = ['gv_keydoor.5x5.yaml', 'gv_keydoor.7x7.yaml', 'gv_keydoor.9x9.yaml']
    spec = common.pick_client(r, p_yaml=0.2, yaml_names=names, hmax=8 if big else 6, wmax=8 if big else 6)
    if spec['kind'] == 'hand' and spec.get('world') is not None:
        for t in ('Door', 'Key', 'Box'):
            if t not in spec['types'] and r.random() < 0.8:
                spec['types'].append(t)
        # regenerate worlds over the enlarged type list (keeps preconditions)
        from gvsim import worlds as W

        kw = dict(unique=spec['unique'], beacon_colour=_bc(spec), density=r.choice([0.3, 0.5, 0.7]))
        h, w = spec['world']['h'], spec['world']['w']
        spec['world'] = W.gen_world(r, h, w, spec['types'], spec['colors'], **kw)
        spec['pool_worlds'] = [W.gen_world(r, h, w, spec['types'], spec['colors'], **kw) for _ in spec['pool_worlds']]
        for wv in [spec['world']] + spec['pool_worlds']:
            if r.random() < 0.5:
                plant_door_scene(r, wv, spec['colors'], spec['unique'], spec['types'])
        if rec.get('grid_from_shape'):
            # grids built with Grid.from_shape(factory=...): make sure a factory of (mutable) doors makes several cells
            for wv in [spec['world']] + spec['pool_worlds']:
                twin_door_in_row(r, wv, spec['unique'])
        for must in ('actuate_door', 'actuate_box'):
            if must not in spec['chain'] and r.random() < 0.7:
                spec['chain'].insert(r.randrange(len(spec['chain']) + 1), must)
        if 'ACTUATE' not in spec['actions']:
            spec['actions'].append('ACTUATE')
    rec['clients'] = [spec]
    n = r.randint(30, 120 if not big else 400)
    def fork(r):
        return [[0, 'fork_inplace', r.randrange(64), [r.choice([6, 6, 6, 7, r.randrange(8)]) for _ in range(r.randint(1, 4))]]]

    rec['ops'] = common.world_ops(r, spec, n, p_fault=0.08 if spec['kind'] == 'hand' else 0.0, fault_gen=fork,
                                  weights=dict(fobs=0, read_obs=0.1, turnpair=0.1, guided=3))
    if spec['kind'] == 'yaml':
        # fetch the key, go to the door, open it, walk on
        plan = [[0, 'guided', 'facing', 'Key', 0]] * 12 + [[0, 'guided', 'facing', 'Door', 0]] * 14 + [[0, 'guided', 'on', 'Exit', 0]] * 14
        k = r.randrange(2, max(3, len(rec['ops']) // 2))
        rec['ops'][k:k] = [list(o) for o in plan]
    return rec


def plant_door_scene(r, w, colors, unique, types=None):
    """a door (any status) right in front of the agent and some held item (key of any colour, or other)"""
    y, x, hd, _ = w['agent']
    dy, dx = M.FWD[hd]
    fy, fx = y + dy, x + dx
    if not (0 <= fy < w['h'] and 0 <= fx < w['w']) or w['cells'][fy][fx][0] in (unique, 'Beacon') or unique == 'Door':
        return
    dc = r.choice(colors)
    w['cells'][fy][fx] = ['Door', r.choice(['LOCKED', 'LOCKED', 'CLOSED', 'OPEN']), dc]
    if types is not None and 'Box' in types and r.random() < 0.25:
        w['cells'][fy][fx] = ['Box', w['cells'][fy][fx]]  # a door inside a box: two actuations needed
    m = r.random()
    if types is not None and 'Key' not in types:
        m = 0.85  # only declared types may be held
    if m < 0.4:
        w['agent'][3] = ['Key', dc]
    elif m < 0.8:
        w['agent'][3] = ['Key', r.choice(colors)]
    elif m < 0.9:
        w['agent'][3] = ['NoneGridObject']


def twin_door_in_row(r, w, unique):
    """put a second, identical door into the row of an existing door (on a floor cell)"""
    if unique == 'Door':
        return
    doors = [(y, x) for y in range(w['h']) for x in range(w['w']) if w['cells'][y][x][0] == 'Door' and w['cells'][y][x][1] != 'OPEN']
    r.shuffle(doors)
    for (y, x) in doors:
        free = [x2 for x2 in range(w['w']) if w['cells'][y][x2][0] == 'Floor' and (y, x2) != (w['agent'][0], w['agent'][1])]
        if free:
            w['cells'][y][r.choice(free)] = list(w['cells'][y][x])
            return


def _bc(spec):
    if not spec.get('beacon'):
        return None
    for row in spec['world']['cells']:
        for c in row:
            if c[0] == 'Beacon':
                return c[1]
    return None


def doors_boxes(w):
    return {(y, x): c for y, row in enumerate(w['cells']) for x, c in enumerate(row) if c[0] in ('Door', 'Box')}


class Actuation:
    def on_start(self, sim):
        self.legit = {}  # client -> set of door positions opened by a documented actuation
        self.initial_open = {}

    def on_reset(self, cl, ev):
        if 'w1' in ev:
            self.legit[cl.idx] = set()
            self.initial_open[cl.idx] = {p for p, c in doors_boxes(ev['w1']).items() if c[0] == 'Door' and c[1] == 'OPEN'}

    def on_step(self, cl, ev):
        sim = self.sim
        if isinstance(ev['out'], Raised):
            return
        w0, w1, a = ev['w0'], ev['w1'], ev['action']
        if not M.inside(w0, w0['agent'][0], w0['agent'][1]):
            return
        sb = common.seam_break(ev) if cl.proxied else None
        if sb is not None:
            sim.violate('actuation', 'state_changed_outside_components', sb[0], common.world_diff(sb[1], sb[2]), f'{a}: the state differs {sb[0]} ({common.world_diff(sb[1], sb[2])})')
            return
        chain = cl.mspec['chain']
        if cl.proxied and len(ev['complog']) == len(chain):
            for (name, before, after, _) in ev['complog']:
                m = M.mutable(before)
                if name in M.DETERMINISTIC:
                    M.DETERMINISTIC[name](m, a)
                fm = M.frozen(m)
                if name == 'actuate_door':
                    self._dprobes(before, a)
                if doors_boxes(fm) != doors_boxes(after):
                    sim.violate('actuation', 'door_box_cells', name, _acause(before, a),
                                f'{name} on {a}: doors/boxes {sorted(doors_boxes(after).items())} model {sorted(doors_boxes(fm).items())}; held {before["agent"][3]}')
                    return
                if name in M.DETERMINISTIC and fm['agent'][3] != after['agent'][3]:
                    sim.violate('actuation', 'held_item', name, _acause(before, a), f'{name} on {a}: held {before["agent"][3]} -> {after["agent"][3]}, model {fm["agent"][3]}')
                    return
                if name in ('actuate_door', 'actuate_box') and fm['cells'] != after['cells']:
                    sim.violate('actuation', 'grid', name, _acause(before, a), f'{name} on {a}: grid differs from model')
                    return
        elif all(n in M.DETERMINISTIC for n in chain):
            m = M.mutable(w0)
            M.step_deterministic(m, a, chain)
            fm = M.frozen(m)
            self._dprobes(w0, a)
            if doors_boxes(fm) != doors_boxes(w1) or fm['agent'][3] != w1['agent'][3]:
                sim.violate('actuation', 'door_box_cells', 'chain', _acause(w0, a), f'{a}: doors/boxes/held differ from model; chain {chain}')
                return
        # history: a door is never found open unless it started open or a documented actuation opened it
        if ev.get('stateful') and cl.idx in self.legit:
            # the world as the door-actuating component sees it (earlier components of the chain may
            # have moved, turned or teleported the agent)
            wa = None
            if 'actuate_door' in chain:
                if cl.proxied and len(ev['complog']) == len(chain):
                    wa = ev['complog'][chain.index('actuate_door')][1]
                elif not any(n in M.STOCHASTIC for n in chain[: chain.index('actuate_door')]):
                    wa = M.mutable(w0)
                    M.step_deterministic(wa, a, chain[: chain.index('actuate_door')])
            f = M.front(wa) if wa is not None else (-1, -1)
            if wa is not None and a == 'ACTUATE' and M.inside(wa, *f) and wa['cells'][f[0]][f[1]][0] == 'Door':
                d = wa['cells'][f[0]][f[1]]
                held = wa['agent'][3]
                if d[1] == 'CLOSED' or (d[1] == 'LOCKED' and held[0] == 'Key' and held[1] == d[2]):
                    self.legit[cl.idx].add(f)
            for p, c in doors_boxes(w1).items():
                if c[0] == 'Door' and c[1] == 'OPEN' and p not in self.legit[cl.idx] and p not in self.initial_open[cl.idx]:
                    # a dropped (held) open door is not a status change
                    if w0['cells'][p[0]][p[1]][0] != 'Door':
                        self.initial_open[cl.idx].add(p)
                        continue
                    sim.violate('actuation', 'door_open_without_actuation', 'history', w0['cells'][p[0]][p[1]][1], f'door at {p} open after {a} without a documented actuation')
                    return

    def _dprobes(self, w, a):
        if a != 'ACTUATE':
            return
        ctx = self.sim.ctx
        f = M.front(w)
        if not M.inside(w, *f):
            ctx.probe('actuate_off_grid')
            return
        c = w['cells'][f[0]][f[1]]
        held = w['agent'][3]
        if c[0] == 'Door':
            if c[1] == 'LOCKED':
                if held[0] == 'Key':
                    ctx.probe('locked_matching_key' if held[1] == c[2] else 'locked_wrong_key')
                else:
                    ctx.probe('locked_no_key')
            else:
                ctx.probe('actuate_' + c[1].lower() + '_door')
        elif c[0] == 'Box':
            ctx.probe('actuate_box')


def _acause(w, a):
    f = M.front(w)
    if not M.inside(w, *f):
        return a + '_front_off_grid'
    c = w['cells'][f[0]][f[1]]
    return a + '_front_' + c[0] + ('_' + c[1] if c[0] == 'Door' else '')


def op_fork_inplace(sim, cl, i, ks):
    """the simulated caller duplicates a state with copy.deepcopy and drives the duplicate with the (in-place)
    transition function; doors and boxes of the ORIGINAL state must not react to actions taken elsewhere"""
    import copy

    from gvsim.lib import ACTIONS, action_of, world_of
    from gvsim.sim import sut

    if not cl.pool or not cl.proxied:
        return
    s = cl.pool[i % len(cl.pool)]
    before = world_of(s)
    t = sut(copy.deepcopy, s)
    sim.ctx.fault('caller_deepcopy_then_inplace_steps')
    if isinstance(t, Raised):
        return
    for k in ks:
        a = ACTIONS[k % 8]
        if a not in cl.actions:
            continue
        r = sut(cl.transition, t, action_of(a), rng=getattr(cl.env, '_rng', None))
        if isinstance(r, Raised):
            break
    sim.ctx.log('fork_inplace', world_of(t)['agent'])
    after = world_of(s)
    if after != before:
        sim.violate('actuation', 'door_or_box_changed_without_action', 'other_state_driven_in_place', common.world_diff(before, after),
                    f'actions applied to a deepcopy of the state changed the state itself: {common.world_diff(before, after)}')


def execute(record, ctx):
    sim = Sim(record, ctx, [Actuation()])
    sim.op_fork_inplace = lambda cl, *a: op_fork_inplace(sim, cl, *a)
    sim.run()
    probes = sum(n for k, n in ctx.stats.items() if k.startswith('probe:') and not k.startswith('probe:guided'))
    if ctx.ticks >= 10 and probes > 0:
        ctx.distinct.add(ctx.trace_digest())
    from gvsim.props.c08 import _brief

    ctx.sample = {'client': _brief(record['clients'][0]), 'ops_head': record['ops'][:12], 'n_ops': len(record['ops'])}


simplify = common.simplify_single
