"""C20 - the gym adapter is a faithful view of the wrapped environment (profile `gym`).

M-gym refinement: next to every gym-level client runs a twin inner environment that is only
threaded functionally; expected arrays are conversions of the twin's state / observation by
representation objects the oracle builds itself.
"""
import numpy as np

from gvsim import worlds as W
from gvsim.kernel import stream
from gvsim.lib import action_of, state_key
from gvsim.props import common
from gvsim.props.c04 import arrays_equal
from gvsim.sim import Raised, load_yaml_data, sut, yaml_path
from gvsim.lib import ACTIONS

PROP = 'C20'
TIERS = {'quick': {'runs': 1200, 'wall': 100}, 'thorough': {'runs': 30000, 'wall': 1500}}
REACH = ['representation_switch', 'representation_switch_via_wrapper', 'wrapper_op', 'representation_switch_mid_episode', 'observation_area_off_bottom_centre', 'faithful_codes_checked', 'guided_step', 'door_opened_at_gym_layer']  # probes / faults that must fire in every batch (reach gaps are reported in the evidence)
RULE = ('one run = 1-2 gym-level clients (every shipped configuration, built directly, through gym.make(id).unwrapped '
        'and through the registry spec\'s factory; with and without GymStateWrapper) under a seeded op list of reset / '
        'step(index) / representation switches at arbitrary points / space reads, interleaved with adversary noise on '
        'process-global state; distinct = executed-trace digest; non-trivial = >= 10 ops incl. >= 1 step and >= 1 '
        'representation switch or wrapper op')
REAL = ['gym_gridverse.gym (GymEnvironment, GymStateWrapper, outer_space_to_gym_space, registration)', 'gym 0.26.2 spaces and registry',
        'gym_gridverse.outer_env.OuterEnv', 'gym_gridverse.representations', 'gym_gridverse.envs.yaml.factory', 'gym_gridverse.envs.gridworld.GridWorld and all components']
STUB = []
ASSUMPTIONS = ['indices outside range(n) are not exercised', 'GymEnvironment.seed is not called (gym 0.26 removed seeding.create_seed); seeds go through the inner set_seed',
               'gym.make wrappers (OrderEnforcing, PassiveEnvChecker) are bypassed with .unwrapped as the registered ids are documented to be used']

REPRS = ['default', 'no-overlap', 'compact']


def ids_by_file():
    import gym_gridverse.gym as gg

    return {v: k for k, v in gg.STRING_TO_YAML_FILE.items()}


def generate(seed, run, tier):
    r = stream(seed, PROP, run, 'gen')
    rec = common.base_record(PROP, seed, run, tier)
    rec['debug'] = r.random() < 0.5
    big = tier == 'thorough'
    ncl = r.choice([1, 1, 2])
    clients = []
    for j in range(ncl):
        clients.append({
            'yaml': W.SHIPPED[(run * 2 + j) % len(W.SHIPPED)] if r.random() < 0.7 else r.choice(W.SHIPPED),
            'build': r.choice(['direct', 'make', 'spec_factory', 'varied_actions']),
            'action_perm_seed': r.randrange(2**31),
            'wrapper': r.random() < 0.5,
            'state_repr': r.choice(REPRS),
            'env_seed': W.gen_seed(r),
        })
    rec['clients'] = clients
    ops = []
    for c in range(ncl):
        ops.append([c, 'set_seed', W.gen_seed(r)])
        ops.append([c, 'reset'])
    n = r.randint(25, 80 if not big else 250)
    while len(ops) < n:
        c = r.randrange(ncl)
        m = r.random()
        if m < 0.55:
            door_env = 'keydoor' in clients[c]['yaml']
            ops.append([c, 'guided' if (door_env and r.random() < 0.6) else 'step', r.randrange(64)])
        elif m < 0.65:
            ops.append([c, 'reset'])
        elif m < 0.75:
            ops.append([c, 'switch', r.choice(['observation', 'state']), r.choice(REPRS)])
            if r.random() < 0.7:
                ops.append([c, r.choice(['step', 'reset', 'spaces']), r.randrange(64)][:3])
        elif m < 0.85:
            ops.append([c, 'spaces', 0])
        elif m < 0.9:
            ops.append([c, 'read', 0])
        else:
            k = r.choice(['reseed_gv', 'np_seed', 'py_seed', 'debug', 'clear_caches'])
            ops.append(['adv', k] + ([r.randrange(2**31)] if k.endswith('seed') or k == 'reseed_gv' else [r.random() < 0.5] if k == 'debug' else []))
    rec['ops'] = [o if o[1] != 'reset' else o[:2] for o in ops]
    return rec


def snap(arrays):
    """private copy of returned arrays, taken before the oracle calls anything else in the library
    (a returned array must be judged as it was at the moment the call returned)"""
    if isinstance(arrays, dict):
        return {k: np.array(v, copy=True) for k, v in arrays.items()}
    return arrays


def in_gym_space(space, arrays):
    """own containment test for gym Dict-of-Box spaces (plus the space's own contains)"""
    if space is None or not isinstance(arrays, dict):
        return False, 'no_space'
    if sorted(space.spaces.keys()) != sorted(arrays.keys()):
        return False, 'keys'
    for k, box in space.spaces.items():
        x = np.asarray(arrays[k])
        if x.shape != box.shape:
            return False, f'shape_{k}'
        if np.issubdtype(box.dtype, np.integer) != np.issubdtype(x.dtype, np.integer):
            return False, f'dtype_{k}'
        if np.any(x < box.low) or np.any(x > box.high):
            return False, f'bounds_{k}'
    ok = sut(space.contains, arrays)
    if isinstance(ok, Raised) or not ok:
        return False, 'gym_contains'
    return True, ''


def same_box_space(gym_space, rep_space):
    """the advertised gym space equals the representation's declared space"""
    if gym_space is None:
        return False
    if sorted(gym_space.spaces.keys()) != sorted(rep_space.keys()):
        return False
    for k, sp in rep_space.items():
        box = gym_space.spaces[k]
        if box.shape != sp.lower_bound.shape or not np.array_equal(box.low, sp.lower_bound) or not np.array_equal(box.high, sp.upper_bound):
            return False
    return True


class GymClient:
    def __init__(self, idx, spec, runner):
        import gym

        import gym_gridverse.gym as gg
        from gym_gridverse.envs.yaml.factory import factory_env_from_yaml
        from gym_gridverse.representations.observation_representations import make_observation_representation
        from gym_gridverse.representations.state_representations import make_state_representation

        self.idx, self.spec = idx, spec
        self.data = load_yaml_data(spec['yaml'])
        self.actions = list(self.data.get('action_space', ACTIONS))
        gid = ids_by_file()[spec['yaml']]
        build = spec['build']
        if build == 'varied_actions':
            # same configuration with its action list re-ordered / reduced: index i must still mean actions[i]
            import random

            from gym_gridverse.envs.yaml.factory import factory_env_from_data
            from gym_gridverse.outer_env import OuterEnv

            rr = random.Random(spec.get('action_perm_seed', 0))
            acts = list(self.actions)
            rr.shuffle(acts)
            acts = acts[: rr.randint(2, len(acts))]
            self.actions = acts
            self.data = dict(self.data, action_space=acts)
            rf = dict(self.data['reset_function'])
            if 'shape' in rf and rr.random() < 0.6:
                # a non-square variant of the shipped shape (all shipped shapes are square)
                hh, ww = rf['shape']
                name = rf['name']
                if name in ('empty', 'dynamic_obstacles', 'teleport', 'keydoor'):
                    rf['shape'] = rr.choice([[hh, ww + rr.choice([3, 4, 6])], [hh + rr.choice([1, 3]), ww], [max(4, hh - 1) if name != 'keydoor' else hh, ww + 5]])
                elif name in ('crossing', 'memory'):
                    rf['shape'] = rr.choice([[hh, ww + rr.choice([2, 4, 6])], [hh + 2, ww]])
                elif name in ('rooms', 'memory_rooms'):
                    rf['shape'] = rr.choice([[hh, ww + rr.choice([3, 4])], [hh + 2, ww]])
                self.data['reset_function'] = rf
            of = dict(self.data.get('observation_function') or {})
            if 'area' in of and rr.random() < 0.5:
                # a view that does not put the agent on its bottom-centre cell (every shipped view does)
                vh, vw = rr.randint(1, 8), rr.choice([1, 3, 5, 7, 9])  # observation spaces need an odd width
                ymax = 0 if of.get('name') == 'partially_occluded' else rr.randint(0, vh - 1)
                xmin = -rr.randint(0, vw - 1)
                of['area'] = [[ymax - vh + 1, ymax], [xmin, xmin + vw - 1]]
                self.data['observation_function'] = of
                self.varied_area = True
            import copy as _copy

            inner = factory_env_from_data(_copy.deepcopy(self.data))
            self.g = gg.GymEnvironment(OuterEnv(inner, observation_representation=make_observation_representation('default', inner.observation_space)))
        elif build == 'direct':
            import os

            path = os.path.join(os.path.dirname(gg.__file__), 'registered_envs', spec['yaml'])
            self.g = gg.GymEnvironment(gg.outer_env_factory(path))
        elif build == 'make':
            self.g = gym.make(gid).unwrapped
        else:
            sp = gym.spec(gid)
            self.g = gg.from_factory(**sp.kwargs)
        self.inner = self.g.outer_env.inner_env
        if build == 'varied_actions':
            from gym_gridverse.envs.yaml.factory import factory_env_from_data
            import copy as _copy

            self.twin = factory_env_from_data(_copy.deepcopy(self.data))
        else:
            self.twin = factory_env_from_yaml(yaml_path(spec['yaml']))
        self.mk_o = lambda name: make_observation_representation(name, self.twin.observation_space)
        self.mk_s = lambda name: make_state_representation(name, self.twin.state_space)
        self.orep_name, self.srep_name = 'default', None
        self.orep, self.srep = self.mk_o('default'), None
        self.w = None
        if spec['wrapper']:
            r = sut(self.g.set_state_representation, spec['state_repr'])
            if not isinstance(r, Raised):
                self.srep_name, self.srep = spec['state_repr'], self.mk_s(spec['state_repr'])
            self.w = gg.GymStateWrapper(self.g)
        self.inner.set_seed(spec['env_seed'])
        self.twin.set_seed(spec['env_seed'])
        self.S = self.O = None
        self.codes = {}
        self.started = False


class Runner:
    def __init__(self, record, ctx):
        self.rec, self.ctx = record, ctx
        self.op_index = -1
        self.clients = [GymClient(i, s, self) for i, s in enumerate(record['clients'])]
        from gvsim.sim import Sim

        self.adv = Sim({'clients': [], 'ops': [], 'property': PROP}, ctx, [])

    def violate(self, code, site, cause, detail):
        self.ctx.violate('gym', code, site, cause, self.op_index, detail)

    def run(self):
        for c in self.clients:
            if getattr(c, 'varied_area', False):
                self.ctx.probe('observation_area_off_bottom_centre')
        for i, op in enumerate(self.rec['ops']):
            self.op_index = i
            self.ctx.ticks += 1
            self.ctx.log('OP', i, op)
            if op[0] == 'adv':
                getattr(self.adv, 'adv_' + op[1])(*op[2:])
                continue
            cl = self.clients[op[0] % len(self.clients)]
            getattr(self, 'op_' + op[1])(cl, *op[2:])

    # ---- the oracle's expectations
    def expect_obs(self, cl):
        return snap(cl.orep.convert(cl.O))

    def expect_state(self, cl):
        return snap(cl.srep.convert(cl.S)) if cl.srep is not None else None

    def check_view(self, cl, where, returned, info=None):
        """`returned` is what reset/step handed back at the top layer"""
        top = cl.w if cl.w is not None else cl.g
        if state_key(cl.inner.state) != state_key(cl.S):
            self.violate('inner_state_differs', where, '-', 'the wrapped environment is not in the state the functional threading predicts')
            return False
        eo = self.expect_obs(cl)
        if cl.w is None:
            if not arrays_equal(returned, eo):
                stale = cl.prev_eo is not None and arrays_equal(returned, cl.prev_eo)
                self.violate('observation_not_of_current_state', where, 'stale_previous_observation' if stale else cl.orep_name, 'returned observation is not the representation of the observation of the current state')
                return False
            ok, why = in_gym_space(cl.g.observation_space, returned)
            if not ok:
                self.violate('outside_advertised_space', where, 'observation_' + why, f'observation outside GymEnvironment.observation_space ({why}); representation {cl.orep_name}')
                return False
            if not self.faithful(cl, where, 'observation', cl.O, returned, cl.orep_name):
                return False
        else:
            es = self.expect_state(cl)
            if es is None:
                return True
            if not arrays_equal(returned, es):
                self.violate('wrapper_does_not_return_state', where, cl.srep_name, 'GymStateWrapper did not return the state representation')
                return False
            ok, why = in_gym_space(cl.w.observation_space, returned)
            if not ok:
                self.violate('outside_advertised_space', where, 'wrapper_state_' + why, f'state outside GymStateWrapper.observation_space ({why}); representation {cl.srep_name}')
                return False
            if not self.faithful(cl, where, 'state', cl.S, returned, cl.srep_name):
                return False
            if info is not None:
                if 'observation' not in info or not arrays_equal(info['observation'], eo):
                    self.violate('wrapper_info_observation', where, cl.orep_name, "info['observation'] is not the observation representation")
                    return False
                if not self.faithful(cl, where, 'observation', cl.O, info['observation'], cl.orep_name):
                    return False
            self.ctx.probe('wrapper_op')
        cl.prev_eo = eo
        return True

    def faithful(self, cl, where, kind, obj, arrays, rep_name):
        """the numeric view is a faithful encoding: within one representation the code of a cell is a function of the
        object's (type, status, colour) that tells different objects apart (box contents are documented as not encoded),
        and the agent marker sits on the agent's cell"""
        if not isinstance(arrays, dict):
            return True
        from gvsim.lib import world_of

        w = world_of(obj)
        d2c, c2d = cl.codes.setdefault((kind, rep_name), ({}, {}))

        def top(d):
            return ('Box',) if d[0] == 'Box' else tuple(d)

        pairs = []
        g = arrays.get('grid')
        if g is not None and np.ndim(g) == 3 and np.shape(g)[:2] == (w['h'], w['w']):
            for y in range(w['h']):
                for x in range(w['w']):
                    pairs.append((top(w['cells'][y][x]), tuple(int(v) for v in g[y, x])))
        it = arrays.get('item')
        if it is not None and np.ndim(it) == 1:
            pairs.append((top(w['agent'][3]), tuple(int(v) for v in it)))
        if rep_name in ('no-overlap', 'compact'):
            # documented for both: "no overlap across channels, meaning that each channel uses separate indices"
            chans = cl.codes.setdefault(('channels', kind, rep_name), [set(), set(), set()])
            for _, code in pairs:
                for ch in range(min(3, len(code))):
                    chans[ch].add(code[ch])
            for a in range(3):
                for b in range(a + 1, 3):
                    common = chans[a] & chans[b]
                    if common:
                        self.violate('channels_overlap', where, f'{kind}:{rep_name}', f'index {sorted(common)[0]} is used in channel {a} and in channel {b}')
                        return False
        for d, code in pairs:
            if d2c.setdefault(d, code) != code:
                self.violate('code_not_a_function_of_object', where, f'{kind}:{rep_name}', f'{d} encoded as {code} and earlier as {d2c[d]}')
                return False
            if c2d.setdefault(code, d) != d:
                self.violate('different_objects_same_code', where, f'{kind}:{rep_name}', f'{d} and {c2d[code]} are both encoded as {code}')
                return False
        aid = arrays.get('agent_id_grid')
        if aid is not None and np.shape(aid) == (w['h'], w['w']):
            exp = np.zeros((w['h'], w['w']), dtype=int)
            ay, ax = w['agent'][0], w['agent'][1]
            if 0 <= ay < w['h'] and 0 <= ax < w['w']:
                exp[ay, ax] = 1
            if not np.array_equal(np.asarray(aid), exp):
                self.violate('agent_marker_misplaced', where, f'{kind}:{rep_name}', f'agent_id_grid does not mark exactly the agent cell {(ay, ax)}')
                return False
        av = arrays.get('agent')
        if av is not None and np.shape(av) == (6,) and kind == 'state':
            # documented: position normalised between -1 and 1 (so it orders poses like the coordinates do and tells
            # them apart), then a one-hot encoding of the orientation
            ay, ax, hd = w['agent'][:3]
            hot = [float(v) for v in av[2:]]
            pose_code = tuple(float(v) for v in av)
            p2c, c2p = cl.codes.setdefault(('agent_vector', rep_name, w['h'], w['w']), ({}, {}))
            if sorted(hot) != [0.0, 0.0, 0.0, 1.0]:
                self.violate('agent_vector_not_one_hot', where, f'{kind}:{rep_name}', f'orientation entries {hot}')
                return False
            if p2c.setdefault((ay, ax, hd), pose_code) != pose_code or c2p.setdefault(pose_code, (ay, ax, hd)) != (ay, ax, hd):
                self.violate('agent_vector_not_faithful', where, f'{kind}:{rep_name}', f'pose {(ay, ax, hd)} encoded as {pose_code}; table has {p2c.get((ay, ax, hd))} / {c2p.get(pose_code)}')
                return False
            for (py, px, phd), code in p2c.items():
                if (py < ay and not code[0] < pose_code[0]) or (py > ay and not code[0] > pose_code[0]) or (px < ax and not code[1] < pose_code[1]) or (px > ax and not code[1] > pose_code[1]):
                    self.violate('agent_vector_not_monotone', where, f'{kind}:{rep_name}', f'poses {(py, px)} -> {code[:2]} and {(ay, ax)} -> {pose_code[:2]}')
                    return False
        self.ctx.probe('faithful_codes_checked')
        return True

    # ---- ops
    def op_set_seed(self, cl, s):
        cl.inner.set_seed(s)
        cl.twin.set_seed(s)

    def op_reset(self, cl):
        top = cl.w if cl.w is not None else cl.g
        if cl.w is not None and cl.srep is None:
            return
        r = sut(top.reset)
        if isinstance(r, tuple) and len(r) == 2 and isinstance(r[1], dict):  # newer gym API: (obs, info)
            r = r[0]
        r = snap(r)
        S = sut(cl.twin.functional_reset)
        if isinstance(r, Raised) or isinstance(S, Raised):
            if isinstance(r, Raised) != isinstance(S, Raised):
                self.violate('reset_outcome_differs', 'reset', getattr(r, 'type', 'ok'), f'{r!r} vs {S!r}')
            return
        cl.S = S
        cl.O = cl.twin.functional_observation(S)
        cl.prev_eo = getattr(cl, 'prev_eo', None)
        cl.started = True
        self.ctx.state(state_key(S))
        self.ctx.log('reset', cl.idx, state_key(S))
        self.check_view(cl, 'reset', r)

    def op_guided(self, cl, k):
        """towards picking up the key, then opening the door (else a plain step)"""
        if cl.started and k % 4:
            from gvsim.lib import world_of
            from gvsim.sim import guided_action

            w = world_of(cl.S)
            doors = [c for row in w['cells'] for c in row if c[0] == 'Door' and c[1] != 'OPEN']
            if doors:
                a = guided_action(w, 'facing', 'Door' if w['agent'][3][0] == 'Key' else 'Key', cl.actions)
                if a is not None and a in cl.actions:
                    self.ctx.probe('guided_step')
                    return self.op_step(cl, cl.actions.index(a))
        return self.op_step(cl, k)

    def op_step(self, cl, k):
        if not cl.started:
            return
        top = cl.w if cl.w is not None else cl.g
        if cl.w is not None and cl.srep is None:
            return
        i = k % len(cl.actions)
        n = cl.g.action_space.n
        if n != len(cl.actions):
            self.violate('action_space_size', 'action_space', f'{n}_vs_{len(cl.actions)}', 'Discrete(n) differs from the configured number of actions')
            return
        gi = i
        if k % 3 == 0:
            gi = np.int64(i)  # what Discrete.sample() hands out
            self.ctx.probe('numpy_action_index')
        r = sut(top.step, gi)
        if isinstance(r, tuple) and len(r) == 4:
            later = r  # the very objects handed out (checked again after the oracle used the library)
            r = (snap(r[0]), r[1], r[2], dict(r[3], observation=snap(r[3]['observation'])) if isinstance(r[3], dict) and 'observation' in r[3] else r[3])
        f = sut(cl.twin.functional_step, cl.S, action_of(cl.actions[i]))
        if isinstance(r, Raised) or isinstance(f, Raised):
            if isinstance(r, Raised) != isinstance(f, Raised):
                self.violate('step_outcome_differs', 'step', getattr(r, 'type', 'ok'), f'{r!r} vs {f!r}')
            return
        if isinstance(r, tuple) and len(r) == 5:  # newer gym API: (obs, reward, terminated, truncated, info)
            r = (r[0], r[1], bool(r[2]) or bool(r[3]), r[4])
        if not isinstance(r, tuple) or len(r) != 4:
            self.violate('step_result_shape', 'step', '-', f'step returned {type(r).__name__} of length {len(r) if hasattr(r, "__len__") else "?"}')
            return
        obs, reward, done, info = r
        cl.S, fr, fd = f
        cl.O = cl.twin.functional_observation(cl.S)
        self.ctx.state(state_key(cl.S))
        self.ctx.log('step', cl.idx, i, state_key(cl.S), repr(fr), bool(fd))
        self.ctx.probe('step')
        if cl.actions[i] == 'ACTUATE' and any(c[0] == 'Door' and c[1] == 'OPEN' for row in state_key(cl.S)[2] for c in row):
            self.ctx.probe('door_opened_at_gym_layer')
        if state_key(cl.inner.state) != state_key(cl.S):
            self.violate('index_to_action', 'step', cl.actions[i], f'step({i}) did not execute {cl.actions[i]}')
            return
        if reward != fr or bool(done) != bool(fd):
            self.violate('reward_or_flag_differs', 'step', '-', f'gym {(reward, done)!r} vs inner {(fr, fd)!r}')
            return
        if not isinstance(info, dict):
            self.violate('info_not_dict', 'step', '-', repr(type(info)))
            return
        self.check_view(cl, 'step', obs, info)

    def op_switch(self, cl, which, name):
        # a user holding the wrapper switches through the wrapper (attribute forwarding), others on the env
        target = cl.w if (cl.w is not None and (self.op_index + len(name)) % 2 == 0) else cl.g
        if which == 'observation':
            r = sut(lambda: target.set_observation_representation(name))
            if isinstance(r, Raised):
                self.violate('switch_raised', 'set_observation_representation', r.type, repr(r))
                return
            cl.orep_name, cl.orep = name, cl.mk_o(name)
        else:
            r = sut(lambda: target.set_state_representation(name))
            if isinstance(r, Raised):
                self.violate('switch_raised', 'set_state_representation', r.type, repr(r))
                return
            cl.srep_name, cl.srep = name, cl.mk_s(name)
        cl.prev_eo = None
        self.ctx.probe('representation_switch' + ('_via_wrapper' if target is cl.w else ''))
        self.ctx.fault('representation_switch_mid_episode') if cl.started else None
        self.op_spaces(cl, 0)

    def op_spaces(self, cl, _k=0):
        if not same_box_space(cl.g.observation_space, cl.orep.space):
            self.violate('advertised_space_differs', 'GymEnvironment.observation_space', cl.orep_name, 'advertised observation space is not the space of the current observation representation')
            return
        if cl.srep is not None and not same_box_space(cl.g.state_space, cl.srep.space):
            self.violate('advertised_space_differs', 'GymEnvironment.state_space', cl.srep_name, 'advertised state space is not the space of the current state representation')
            return
        if cl.w is not None and cl.srep is not None and not same_box_space(cl.w.observation_space, cl.srep.space):
            self.violate('advertised_space_differs', 'GymStateWrapper.observation_space', cl.srep_name, 'the wrapper advertises a space that is not the space of the current state representation')
            return
        if cl.g.action_space.n != len(cl.actions):
            self.violate('action_space_size', 'action_space', '-', 'Discrete(n) differs from the configured number of actions')

    def op_read(self, cl, _k=0):
        if not cl.started:
            return
        o = snap(sut(lambda: cl.g.observation))
        if isinstance(o, Raised) or not arrays_equal(o, self.expect_obs(cl)):
            self.violate('observation_property_differs', 'GymEnvironment.observation', cl.orep_name, 'GymEnvironment.observation is not the representation of the current observation')
            return
        if cl.srep is not None:
            s = snap(sut(lambda: cl.g.state))
            if isinstance(s, Raised) or not arrays_equal(s, self.expect_state(cl)):
                self.violate('state_property_differs', 'GymEnvironment.state', cl.srep_name, 'GymEnvironment.state is not the representation of the current state')


def execute(record, ctx):
    Runner(record, ctx).run()
    if ctx.ticks >= 10 and ctx.stats.get('probe:step') and (ctx.stats.get('probe:representation_switch') or ctx.stats.get('probe:representation_switch_via_wrapper') or ctx.stats.get('probe:wrapper_op')):
        ctx.distinct.add(ctx.trace_digest())
    ctx.sample = {'clients': record['clients'], 'ops_head': record['ops'][:14], 'n_ops': len(record['ops'])}


def simplify(record):
    import copy

    if len(record['clients']) > 1:
        for i in range(len(record['clients'])):
            r2 = copy.deepcopy(record)
            r2['ops'] = [o for o in r2['ops'] if o[0] != i]
            if len(r2['ops']) < len(record['ops']):
                yield r2
    for i, c in enumerate(record['clients']):
        if c['build'] not in ('direct', 'varied_actions'):
            r2 = copy.deepcopy(record)
            r2['clients'][i]['build'] = 'direct'
            yield r2
