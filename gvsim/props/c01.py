"""C01 - closure and totality of every step (engine: gvsim.sim, profile `closure`)."""
import traceback

from gvsim import model as M
from gvsim.kernel import stream
from gvsim.lib import BUILTIN_TYPES, COLORS, action_of, color_of, mk_observation, mk_state, world_of
from gvsim.props import common
from gvsim.sim import Raised, Sim, finite_float, is_bool, sut

PROP = 'C01'
TIERS = {'quick': {'runs': 2400, 'wall': 100}, 'thorough': {'runs': 60000, 'wall': 1500}}
REACH = ['bad_action_stateful_outside', 'bad_action_functional_int', 'member_probe_held_undeclared', 'member_probe_obs_undeclared_colour', 'facing_out_PICK_N_DROP', 'on_unpaired_telepod', 'holding_Key', 'knob:view_covers_grid', 'knob:near_duplicate_states', 'knob:long_strip', 'knob:nested_chain', 'knob:composition_around_builtin_reset', 'knob:object_identity_aliasing', 'pose_scan', 'member_probe_placeholder_type']  # probes / faults that must fire in every batch (reach gaps are reported in the evidence)
RULE = ('one run = one client (random composition of built-in components with declared spaces over free-form member '
        'worlds - agent on edges facing outward, any held item, unpaired telepods, nested boxes - or a shipped '
        'configuration) under a seeded op list of functional steps for every action on pool states, stateful steps, '
        'observations, with injected rejected actions (outside the action space / not an Action) and membership '
        'probes (conforming and non-conforming variants); distinct = executed-trace digest; non-trivial = >= 10 ops '
        'and >= 1 fault fired')
REAL = common.REAL_SIM
STUB = common.STUB_SIM
ASSUMPTIONS = ['state membership does not include colours (the statement lists shape, types, agent, held type)',
               'components are only composed with worlds that keep their documented preconditions true']


def faults(r):
    m = r.random()
    if m < 0.45:
        return [[0, 'bad_action', r.choice(['outside', 'outside', 'int', 'str', 'none']), r.randrange(64), r.choice(['stateful', 'functional'])]]
    return [[0, 'member_probe', r.choice(['same', 'wrong_shape', 'undeclared_type', 'agent_outside', 'held_undeclared',
                                          'obs_same', 'obs_wrong_shape', 'obs_undeclared_type', 'obs_undeclared_colour', 'obs_agent_outside', 'obs_held_undeclared']),
             r.randrange(64), r.randrange(64)]]


def generate(seed, run, tier):
    r = stream(seed, PROP, run, 'gen')
    rec = common.base_record(PROP, seed, run, tier)
    rec['debug'] = r.random() < 0.5
    big = tier == 'thorough'
    spec = common.pick_client(r, p_yaml=0.25, hmax=8 if big else 6, wmax=8 if big else 6, n_pool=5)
    rec['clients'] = [spec]
    n = r.randint(30, 120 if not big else 300)
    rec['ops'] = common.world_ops(r, spec, n, p_fault=0.2, fault_gen=faults, weights=dict(fobs=2, read_obs=1, turnpair=0.1, guided=2, fstep=6))
    # faults right after reset / right after a step and before the first read
    k = 2
    rec['ops'][k:k] = faults(r)
    return rec


# ------------------------------------------------------------------ independent membership predicates


def state_member(ms, w, shape):
    if (w['h'], w['w']) != tuple(shape):
        return False
    declared = set(ms['types'])
    for row in w['cells']:
        for c in row:
            if (c[1] if c[0] == '?' else c[0]) not in declared:
                return False
    y, x = w['agent'][0], w['agent'][1]
    if not (0 <= y < w['h'] and 0 <= x < w['w']):
        return False
    held = w['agent'][3]
    hn = held[1] if held[0] == '?' else held[0]
    return hn in declared or hn == 'NoneGridObject'


def obs_member(ms, o, vshape):
    if (o['h'], o['w']) != tuple(vshape):
        return False
    declared = set(ms.get('obs_types', ms['types']))
    colours = set(ms.get('obs_colors', ms['colors'])) | {'NONE'}
    for row in o['cells']:
        for c in row:
            n = c[1] if c[0] == '?' else c[0]
            if n not in declared and n != 'Hidden':
                return False
            if color_of(c) not in colours:
                return False
    y, x = o['agent'][0], o['agent'][1]
    if not (0 <= y < o['h'] and 0 <= x < o['w']):
        return False
    held = o['agent'][3]
    hn = held[1] if held[0] == '?' else held[0]
    if hn not in declared and hn != 'NoneGridObject':
        return False
    return color_of(held) in colours


def site_of(r):
    """innermost frame inside the repository (stable under line shifts: function name only)"""
    tb = traceback.extract_tb(r.exc.__traceback__)
    for f in reversed(tb):
        if 'gym_gridverse' in f.filename:
            return f'{f.filename.rsplit("/", 1)[-1][:-3]}.{f.name}'
    return 'outside_repo'


class Closure:
    def _shape(self, cl):
        sp = cl.env.state_space.grid_shape
        return (sp.height, sp.width)

    def _vshape(self, cl):
        return M.view_shape(cl.mspec['obs']['area'])

    def on_reset(self, cl, ev):
        if isinstance(ev['out'], Raised):
            self.sim.violate('closure', 'reset_raised', site_of(ev['out']), ev['out'].type, repr(ev['out']))

    def on_step(self, cl, ev):
        sim = self.sim
        r = ev['out']
        w0, a = ev['w0'], ev['action']
        if not state_member(cl.mspec, w0, self._shape(cl)):
            return  # not a member (an earlier violation put it there): nothing is promised
        if isinstance(r, Raised):
            sim.violate('closure', 'step_raised', site_of(r), r.type + '_' + _scene(w0, a), f'{a} on member state raised {r!r}; chain {cl.mspec["chain"]}')
            return
        w1 = ev['w1']
        mine = state_member(cl.mspec, w1, self._shape(cl))
        theirs = sut(cl.env.state_space.contains, ev['s1'])
        if not mine:
            sim.violate('closure', 'next_state_outside_space', 'chain', _scene(w0, a), f'{a}: next state {w1["agent"]} {w1["h"]}x{w1["w"]} not a member')
            return
        if theirs is not True and not (isinstance(theirs, bool) is False and bool(theirs) is True and not isinstance(theirs, Raised)):
            sim.violate('closure', 'contains_disagrees', 'StateSpace.contains', 'member_rejected', f'contains={theirs!r} for member next state')
            return
        if not finite_float(ev['reward']):
            sim.violate('closure', 'reward_not_finite_float', 'functional_step', type(ev['reward']).__name__, f'{a}: reward {ev["reward"]!r}')
            return
        if not is_bool(ev['terminal']):
            sim.violate('closure', 'terminal_not_bool', 'functional_step', type(ev['terminal']).__name__, f'{a}: terminal {ev["terminal"]!r}')
            return
        if ev['w0_after'] != w0:
            sim.violate('closure', 'input_state_modified', 'functional_step', a, 'input state changed by the step')
        self._edge_probes(w0, a)

    def _edge_probes(self, w, a):
        ctx = self.sim.ctx
        f = M.front(w)
        if not M.inside(w, *f):
            ctx.probe('facing_out_' + a)
        if M.telepod_partners(w) == []:
            ctx.probe('on_unpaired_telepod')
        if w['agent'][3][0] != 'NoneGridObject':
            ctx.probe('holding_' + w['agent'][3][0])

    def on_obs(self, cl, ev):
        sim = self.sim
        if not state_member(cl.mspec, ev['w'], self._shape(cl)):
            return
        r = ev['out']
        if isinstance(r, Raised):
            sim.violate('closure', 'observation_raised', site_of(r), r.type, f'observation of member state raised {r!r}; obs {cl.mspec["obs"]}')
            return
        o = ev['o']
        mine = obs_member(cl.mspec, o, self._vshape(cl))
        theirs = sut(cl.env.observation_space.contains, r)
        if not mine:
            sim.violate('closure', 'observation_outside_space', cl.mspec['obs']['name'], '-', f'observation {o["h"]}x{o["w"]} agent {o["agent"]} not a member')
        elif isinstance(theirs, Raised) or not bool(theirs):
            sim.violate('closure', 'contains_disagrees', 'ObservationSpace.contains', 'member_rejected', f'contains={theirs!r} for member observation')
        if ev['w_after'] != ev['w']:
            sim.violate('closure', 'input_state_modified', 'functional_observation', '-', 'state changed by observing')


def _scene(w, a):
    f = M.front(w)
    t = M.move_target(w, a)
    bits = [a]
    if not M.inside(w, *f):
        bits.append('facing_' + ('top' if f[0] < 0 else 'left' if f[1] < 0 else 'bottom' if f[0] >= w['h'] else 'right') + '_edge')
    elif t is not None and not M.inside(w, *t):
        bits.append('move_off_' + ('top' if t[0] < 0 else 'left' if t[1] < 0 else 'bottom' if t[0] >= w['h'] else 'right'))
    if M.telepod_partners(w) == []:
        bits.append('unpaired_telepod')
    return '_'.join(bits)


# ------------------------------------------------------------------ fault ops


def op_bad_action(sim, cl, kind, k, how):
    """a rejected action in the middle of a history must raise ValueError and change nothing"""
    env = cl.env
    allowed = set(cl.actions)
    if kind == 'outside':
        outside = [a for a in ['MOVE_FORWARD', 'MOVE_BACKWARD', 'MOVE_LEFT', 'MOVE_RIGHT', 'TURN_LEFT', 'TURN_RIGHT', 'ACTUATE', 'PICK_N_DROP'] if a not in allowed]
        if not outside:
            return
        bad = action_of(outside[k % len(outside)])
    elif kind == 'int':
        bad = k % 8
    elif kind == 'str':
        bad = 'MOVE_FORWARD'
    else:
        bad = None
    mem = sut(env.action_space.contains, bad)
    if isinstance(mem, Raised) or bool(mem):
        sim.violate('closure', 'action_contains_disagrees', 'ActionSpace.contains', kind, f'contains({bad!r}) = {mem!r}')
        return
    g0 = cl.rng_state()
    if how == 'stateful':
        if not cl.started:
            return
        s_obj, o_obj = getattr(env, '_state', None), getattr(env, '_observation', None)
        w0 = world_of(env.state)
        calls0 = cl.obs_calls
        r = sut(env.step, bad)
        sim.ctx.fault('bad_action_stateful_' + kind)
        ok_raise = isinstance(r, Raised) and r.type == 'ValueError'
        if not ok_raise:
            sim.violate('closure', 'bad_action_not_rejected', 'InnerEnv.step', kind, f'step({bad!r}) -> {r!r}')
            return
        changed = []
        if world_of(env.state) != w0 or getattr(env, '_state', None) is not s_obj:
            changed.append('state')
        if getattr(env, '_observation', None) is not o_obj:
            changed.append('memoised_observation')
        if cl.rng_state() != g0:
            changed.append('generator')
        if cl.obs_calls != calls0:
            changed.append('observation_computed')
        if changed:
            sim.violate('closure', 'bad_action_changed_something', 'InnerEnv.step', '+'.join(changed), f'step({bad!r}) rejected but changed {changed}')
    else:
        if not cl.pool:
            return
        s = cl.pool[k % len(cl.pool)]
        w0 = world_of(s)
        r = sut(env.functional_step, s, bad)
        sim.ctx.fault('bad_action_functional_' + kind)
        if not (isinstance(r, Raised) and r.type == 'ValueError'):
            if isinstance(r, Raised) and not state_member(cl.mspec, w0, (env.state_space.grid_shape.height, env.state_space.grid_shape.width)):
                return
            sim.violate('closure', 'bad_action_not_rejected', 'functional_step', kind, f'functional_step(s, {bad!r}) -> {r!r}')
            return
        if world_of(s) != w0 or cl.rng_state() != g0:
            sim.violate('closure', 'bad_action_changed_something', 'functional_step', 'state_or_generator', f'functional_step(s, {bad!r}) rejected but changed something')
    sim.ctx.log('bad_action', kind, how)


def op_member_probe(sim, cl, variant, i, k):
    """the membership predicates accept exactly the conforming states / observations"""
    env = cl.env
    ms = cl.mspec
    if not cl.pool:
        return
    s = cl.pool[i % len(cl.pool)]
    w = M.mutable(world_of(s))
    shape = (env.state_space.grid_shape.height, env.state_space.grid_shape.width)
    if not state_member(ms, w, shape):
        return
    declared = set(ms['types'])
    undeclared = [t for t in BUILTIN_TYPES if t not in declared]
    y, x = k % w['h'], (k // 8) % w['w']

    def an(t):
        if t in ('Hidden', 'NoneGridObject'):
            return (t,)
        return {'Floor': ('Floor',), 'Wall': ('Wall',), 'Exit': ('Exit', 'NONE'), 'Door': ('Door', 'OPEN', 'NONE'), 'Key': ('Key', 'NONE'),
                'MovingObstacle': ('MovingObstacle',), 'Box': ('Box', ('Floor',)), 'Telepod': ('Telepod', 'NONE'), 'Beacon': ('Beacon', 'NONE')}[t]

    if not variant.startswith('obs_'):
        if variant == 'wrong_shape':
            if k % 2:
                w['cells'].append([('Floor',)] * w['w'])
                w['h'] += 1
            else:
                for row in w['cells']:
                    row.append(('Floor',))
                w['w'] += 1
        elif variant == 'undeclared_type':
            # the placeholder types are object types too: a state holding one is outside any space that does not declare it
            cand = undeclared + ['Hidden', 'NoneGridObject']
            w['cells'][y][x] = an(cand[k % len(cand)])
            if cand[k % len(cand)] in ('Hidden', 'NoneGridObject'):
                sim.ctx.probe('member_probe_placeholder_type')
        elif variant == 'agent_outside':
            w['agent'][0], w['agent'][1] = [(-1, x), (w['h'], x), (y, -1), (y, w['w'])][k % 4]
        elif variant == 'held_undeclared':
            if not undeclared:
                return
            w['agent'][3] = an(undeclared[k % len(undeclared)])
        mine = state_member(ms, w, shape)
        theirs = sut(env.state_space.contains, mk_state(w))
        sim.ctx.fault('member_probe_' + variant)
        if isinstance(theirs, Raised) or bool(theirs) != mine:
            sim.violate('closure', 'contains_disagrees', 'StateSpace.contains', variant, f'{variant}: contains={theirs!r}, conforming={mine}')
        return
    # observation variants: start from the real observation of the pool state
    o = sut(env.functional_observation, s)
    if isinstance(o, Raised):
        return
    ow = M.mutable(world_of(o))
    vshape = M.view_shape(ms['obs']['area'])
    if not obs_member(ms, ow, vshape):
        return
    odeclared = set(ms.get('obs_types', ms['types']))
    oundeclared = [t for t in BUILTIN_TYPES if t not in odeclared]
    ocolours = set(ms.get('obs_colors', ms['colors'])) | {'NONE'}
    ucol = [c for c in COLORS if c not in ocolours]
    y, x = k % ow['h'], (k // 8) % ow['w']
    v = variant[4:]
    if v == 'wrong_shape':
        ow['cells'].append([('Hidden',)] * ow['w'])
        ow['h'] += 1
    elif v == 'undeclared_type':
        cand = oundeclared + ['NoneGridObject']  # Hidden is always allowed in an observation grid, NoneGridObject is not
        ow['cells'][y][x] = an(cand[k % len(cand)])
    elif v == 'undeclared_colour':
        if not ucol:
            return
        coloured = [t for t in ('Exit', 'Key', 'Telepod', 'Beacon') if t in odeclared]
        if not coloured:
            return
        ow['cells'][y][x] = (coloured[k % len(coloured)], ucol[k % len(ucol)])
    elif v == 'agent_outside':
        ow['agent'][0], ow['agent'][1] = [(-1, x), (ow['h'], x), (y, -1), (y, ow['w'])][k % 4]
    elif v == 'held_undeclared':
        if not oundeclared:
            return
        ow['agent'][3] = an(oundeclared[k % len(oundeclared)])
    mine = obs_member(ms, ow, vshape)
    theirs = sut(env.observation_space.contains, mk_observation(ow))
    sim.ctx.fault('member_probe_' + variant)
    if isinstance(theirs, Raised) or bool(theirs) != mine:
        sim.violate('closure', 'contains_disagrees', 'ObservationSpace.contains', variant, f'{variant}: contains={theirs!r}, conforming={mine}')


def execute(record, ctx):
    sim = Sim(record, ctx, [Closure()])
    sim.op_bad_action = lambda cl, *a: op_bad_action(sim, cl, *a)
    sim.op_member_probe = lambda cl, *a: op_member_probe(sim, cl, *a)
    sim.run()
    if ctx.ticks >= 10 and ctx.fired > 0:
        ctx.distinct.add(ctx.trace_digest())
    from gvsim.props.c08 import _brief

    ctx.sample = {'client': _brief(record['clients'][0]), 'ops_head': record['ops'][:12], 'n_ops': len(record['ops'])}


simplify = common.simplify_single
