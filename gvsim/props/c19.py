"""C19 - rays are connected paths that sweep the whole area (engine: raysim)."""
import math

import numpy as np

from gvsim.kernel import clear_caches, stream
from gvsim.lib import sha
from gvsim.sim import Raised, sut

PROP = 'C19'
TIERS = {'quick': {'runs': 900, 'wall': 110, 'chunk': 6}, 'thorough': {'runs': 16000, 'wall': 1500, 'chunk': 10}}
REACH = ['clear_caches', 'foreign_cached_query', 'repeat_other_variant', 'cached_vs_uncached', 'visibility_walls', 'visibility_parametrised']  # probes / faults that must fire in every batch (reach gaps are reported in the evidence)
RULE = ('one run = a query client issuing compute_ray / compute_rays / compute_rays_fancy and their cached variants for '
        'areas 1x1..9x9 (thorough: ..13x13; with and without coordinate offset) and every origin, in seeded order with '
        'repeats, interleaved with a visibility client calling the ray-traced visibility function on unobstructed and '
        'obstructed grids, and with cache faults (clearing, adversarial warm-up, foreign queries between a query and '
        'its repeat); evaluations = ray queries; distinct = distinct (kind, area, origin) fans judged; non-trivial = '
        'area larger than 1x1')
REAL = ['gym_gridverse.utils.raytracing (compute_ray, compute_rays, compute_rays_fancy, cached variants)', 'gym_gridverse.envs.visibility_functions.raytracing', 'gym_gridverse.grid / geometry']
STUB = []
ASSUMPTIONS = ['the geometric clauses are pure; the simulator contributes the query history and the cache faults']


def generate(seed, run, tier):
    r = stream(seed, PROP, run, 'gen')
    hi = 13 if tier == 'thorough' else 9
    ops = []
    qs = []
    for _ in range(r.randint(5, 9)):
        m = r.random()
        if m < 0.45 or not qs:
            h, w = (r.randint(1, hi), r.randint(1, hi)) if r.random() < 0.8 else r.choice([(7, 7), (5, 5), (1, hi), (hi, 1)])
            if r.random() < 0.25:
                ymin, xmin = r.randint(-6, 3), r.randint(-6, 3)
            else:
                ymin, xmin = 0, 0
            oy, ox = r.randrange(h), r.randrange(w)
            if r.random() < 0.3:
                oy, ox = r.choice([(0, 0), (h - 1, w // 2), (h - 1, w - 1), (0, w - 1), (h // 2, w // 2)])
            kind = r.choice(['fancy', 'fancy', 'cached_fancy', 'cached_fancy', 'plain', 'cached_plain'])
            q = ['rays', kind, ymin, xmin, h, w, ymin + oy, xmin + ox]
            qs.append(q)
            ops.append(q)
        elif m < 0.6:
            ops.append(['repeat', r.randrange(64), r.choice(['same', 'other_variant'])])
        elif m < 0.75:
            q = qs[r.randrange(len(qs))]
            ops.append(['vis', q[4], q[5], q[6] - q[2], q[7] - q[3], r.choice(['clear', 'walls']), r.randrange(2**31)])
        elif m < 0.85:
            ops.append(['ray', r.randint(1, hi), r.randint(1, hi), r.randrange(64), r.randrange(64), r.choice([0.0, 0.5, 1.0, 1.5]) * math.pi + r.choice([0.0, 0.0, r.uniform(-0.3, 0.3)]), r.choice([0.01, 0.01, 0.05, 0.3])])
        else:
            ops.append(['adv', r.choice(['clear_caches', 'warm'])] + [r.randrange(64)])
    if r.random() < 0.05:
        # size knob: views whose fan has a power-of-two number of rays ((h+1)*(w+1) cell corners)
        bh, bw = r.choice([(15, 15), (7, 31), (31, 7), (3, 63), (63, 3), (7, 15), (15, 7), (1, 127)])
        ops.append(['vis', bh, bw, r.randrange(bh), r.randrange(bw), r.choice(['clear', 'clear', 'walls']), r.randrange(2**31)])
    for _ in range(2):
        ops.append(['repeat', r.randrange(64), 'same'])
    return {'property': PROP, 'seed': seed, 'run': run, 'tier': tier, 'debug': True, 'ops': ops, 'keep_caches': r.random() < 0.3}


def ray_key(rays):
    return tuple(tuple((p.y, p.x) for p in ray) for ray in rays)


def check_ray(ctx, i, ray, area, origin, site):
    ys, xs = area
    if not ray:
        ctx.violate('rays', 'empty_ray', site, '-', i, f'origin {origin} area {area}')
        return False
    if ray[0] != origin:
        ctx.violate('rays', 'does_not_start_at_origin', site, '-', i, f'starts at {ray[0]}, origin {origin}')
        return False
    seen = set()
    prev = None
    for p in ray:
        if not (ys[0] <= p[0] <= ys[1] and xs[0] <= p[1] <= xs[1]):
            ctx.violate('rays', 'leaves_area', site, '-', i, f'{p} outside {area}')
            return False
        if p in seen:
            ctx.violate('rays', 'cell_visited_twice', site, '-', i, f'{p} twice in ray from {origin} in {area}')
            return False
        seen.add(p)
        if prev is not None and max(abs(p[0] - prev[0]), abs(p[1] - prev[1])) != 1:
            ctx.violate('rays', 'not_adjacent', site, '-', i, f'{prev} -> {p} in ray from {origin} in {area}')
            return False
        prev = p
    last = ray[-1]
    if not (last[0] in ys or last[1] in xs):
        ctx.violate('rays', 'does_not_end_on_border', site, '-', i, f'ends at {last}, area {area}, origin {origin}')
        return False
    return True


def execute(record, ctx):
    from gym_gridverse.envs.visibility_functions import visibility_function_registry as vreg
    from gym_gridverse.geometry import Area, Position
    from gym_gridverse.grid import Grid
    from gym_gridverse.grid_object import Floor, Wall
    from gym_gridverse.utils import raytracing as rt

    fns = {'fancy': rt.compute_rays_fancy, 'cached_fancy': rt.cached_compute_rays_fancy, 'plain': rt.compute_rays, 'cached_plain': rt.cached_compute_rays}
    asked = []  # (query, key)
    sample = None
    for i, op in enumerate(record['ops']):
        ctx.ticks += 1
        kind = op[0]
        if kind == 'rays':
            _, which, ymin, xmin, h, w, oy, ox = op
            area = ((ymin, ymin + h - 1), (xmin, xmin + w - 1))
            r = sut(fns[which], Position(oy, ox), Area(*area))
            ctx.count('cases')
            if isinstance(r, Raised):
                ctx.violate('rays', 'query_raised', which, r.type, i, f'{op}: {r!r}')
                continue
            key = ray_key(r)
            ctx.log('rays', op, sha(key))
            asked.append((op, key))
            ok = True
            for ray in key:
                if not check_ray(ctx, i, ray, area, (oy, ox), which):
                    ok = False
                    break
            if ok:
                cover = {p for ray in key for p in ray}
                want = {(y, x) for y in range(area[0][0], area[0][1] + 1) for x in range(area[1][0], area[1][1] + 1)}
                if cover != want:
                    ctx.violate('rays', 'fan_misses_cells', which, f'{len(want - cover)}_cells', i, f'origin {(oy, ox)} area {area}: fan misses {sorted(want - cover)[:6]}')
            if h * w > 1:
                ctx.distinct.add(sha((which.replace('cached_', ''), area, oy, ox)))
            if sample is None:
                sample = {'query': op, 'n_rays': len(key), 'first_ray': [list(p) for p in key[0]][:12]}
        elif kind == 'repeat':
            if not asked:
                continue
            q, key = asked[op[1] % len(asked)]
            which = q[1]
            if op[2] == 'other_variant':
                which = which[7:] if which.startswith('cached_') else 'cached_' + which
            r = sut(fns[which], Position(q[6], q[7]), Area((q[2], q[2] + q[4] - 1), (q[3], q[3] + q[5] - 1)))
            ctx.count('cases')
            ctx.probe('repeat_' + op[2])
            ctx.log('repeat', q, which)
            if isinstance(r, Raised) or ray_key(r) != key:
                ctx.violate('rays', 'repeat_differs', which, 'after_cache_history', i, f'{q} asked again as {which} gives a different fan')
        elif kind == 'vis':
            _, h, w, oy, ox, mode, s = op
            import random

            rr = random.Random(s)
            objs = [[Floor() for _ in range(w)] for _ in range(h)]
            if mode == 'clear' and s % 3 == 0:
                # objects that block movement but not vision leave the view unobstructed
                from gym_gridverse.grid_object import Box, Color, Key, MovingObstacle

                for _ in range(rr.randint(1, max(1, h * w // 4))):
                    objs[rr.randrange(h)][rr.randrange(w)] = rr.choice([Box(Floor()), Box(Key(Color.RED)), MovingObstacle(), Key(Color.BLUE)])
                ctx.probe('visibility_clear_with_transparent_objects')
            if mode == 'walls':
                for _ in range(rr.randint(1, max(1, h * w // 4))):
                    objs[rr.randrange(h)][rr.randrange(w)] = Wall()
            grid = Grid(objs)
            variant = s % 5
            # parameter settings under which an unobstructed view still has to show everything (num == den on every
            # cell) and the origin is visible (every ray is lit where it starts)
            kw = [{}, {'absolute_counts': False, 'threshold': 1}, {'absolute_counts': False, 'threshold': 1.0}, {'threshold': 1.0},
                  {'absolute_counts': False, 'threshold': 0.999}][variant]
            if kw:
                ctx.probe('visibility_parametrised')
            if (s // 5) % 2 and kw:
                from gym_gridverse.envs import visibility_functions as _vf

                f = sut(_vf.factory, 'raytracing', **kw)
                v = f if isinstance(f, Raised) else sut(f, grid, Position(oy, ox))
            else:
                v = sut(vreg['raytracing'], grid, Position(oy, ox), **kw)
            ctx.probe('visibility_' + mode + ('_boundary_size' if h * w > 100 else ''))
            ctx.log('vis', op)
            if isinstance(v, Raised):
                ctx.violate('rays', 'visibility_raised', 'raytracing', v.type, i, repr(v))
                continue
            if mode == 'clear' and not bool(np.all(v)):
                ctx.violate('rays', 'unobstructed_view_hides_cells', 'raytracing', '-', i, f'{h}x{w} from {(oy, ox)}: {int(v.size - v.sum())} cells hidden')
            if mode == 'clear' and h * w <= 100:
                # the stochastic variant shows a cell with the share of rays reaching it lit: in an unobstructed view
                # that share is 1 for every cell, whatever is drawn
                sv = sut(vreg['stochastic_raytracing'], grid, Position(oy, ox), rng=np.random.default_rng(s))
                if isinstance(sv, Raised) or not bool(np.all(sv)):
                    ctx.violate('rays', 'unobstructed_view_hides_cells', 'stochastic_raytracing', '-', i, f'{h}x{w} from {(oy, ox)}: {sv!r}'[:300])
            if not bool(v[oy, ox]):
                ctx.violate('rays', 'origin_not_visible', 'raytracing', mode, i, f'{h}x{w} from {(oy, ox)}')
        elif kind == 'ray':
            _, h, w, ky, kx, rad, step = op
            oy, ox = ky % h, kx % w
            area = ((0, h - 1), (0, w - 1))
            r = sut(rt.compute_ray, Position(oy, ox), Area(*area), radians=rad, step_size=step)
            ctx.count('cases')
            ctx.log('ray', op)
            if isinstance(r, Raised):
                ctx.violate('rays', 'query_raised', 'compute_ray', r.type, i, f'{op}: {r!r}')
                continue
            ray = tuple((p.y, p.x) for p in r)
            if step <= 0.05:
                check_ray(ctx, i, ray, area, (oy, ox), 'compute_ray')
            r2 = sut(rt.compute_ray, Position(oy, ox), Area(*area), radians=rad, step_size=step)
            if isinstance(r2, Raised) or tuple((p.y, p.x) for p in r2) != ray:
                ctx.violate('rays', 'repeat_differs', 'compute_ray', '-', i, f'{op}')
        elif kind == 'adv':
            if op[1] == 'clear_caches':
                clear_caches()
                ctx.fault('clear_caches')
            else:
                # adversarial warm-up: foreign queries between a query and its repeat
                k = op[2]
                rt.cached_compute_rays_fancy(Position(k % 2, k % 3), Area((0, 1 + k % 2), (0, 2 + k % 3)))
                ctx.fault('foreign_cached_query')
    # the cached value still equals an uncached recomputation after everybody has used it
    for q, key in asked[-2:]:
        if q[1].startswith('cached_'):
            base = fns[q[1][7:]]
            r = sut(base, Position(q[6], q[7]), Area((q[2], q[2] + q[4] - 1), (q[3], q[3] + q[5] - 1)))
            cur = sut(fns[q[1]], Position(q[6], q[7]), Area((q[2], q[2] + q[4] - 1), (q[3], q[3] + q[5] - 1)))
            ctx.probe('cached_vs_uncached')
            if isinstance(r, Raised) or isinstance(cur, Raised) or ray_key(r) != ray_key(cur) or ray_key(cur) != key:
                ctx.violate('rays', 'cache_corrupted', q[1], '-', len(record['ops']), f'{q}: cached fan differs from recomputation at run end')
    ctx.sample = sample


def simplify(record):
    import copy

    for i, op in enumerate(record['ops']):
        if op[0] == 'rays':
            for j in (4, 5):
                if op[j] > 1:
                    r2 = copy.deepcopy(record)
                    o = r2['ops'][i]
                    o[j] -= 1
                    o[6] = min(o[6], o[2] + o[4] - 1)
                    o[7] = min(o[7], o[3] + o[5] - 1)
                    yield r2
