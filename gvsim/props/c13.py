"""C13 - reset functions always produce well-formed initial states (engine: resetsim, profile `wellformed`)."""
from gvsim import resets as R
from gvsim.kernel import stream
from gvsim.lib import sha, world_of, wkey
from gvsim.sim import Raised

PROP = 'C13'
TIERS = {'quick': {'runs': 6000, 'wall': 100}, 'thorough': {'runs': 150000, 'wall': 1500}}
CASES_PER_RUN = 40
REACH = ['scripted_first', 'scripted_last', 'scripted_mixed']  # probes / faults that must fire in every batch (reach gaps are reported in the evidence)
RULE = ('one run = 40 reset calls; each case = one of the eight built-in reset functions (registry or factory) with '
        'parameters drawn 70% from the region expected to be honoured and 30% from anywhere (shapes 1x1..14x14, layouts '
        '1..4, counts -1..cells+2, colour subsets with and without NONE), and a generator that is a real seeded '
        'Generator or a ScriptedRng with uniform / first / last / mixed outcomes; the call must raise ValueError or '
        'return a well-formed state; evaluations = cases; distinct = distinct (function, parameters, returned state) '
        'digests; non-trivial = the call returned a state (a ValueError case is counted as trivial)')
REAL = ['gym_gridverse.envs.reset_functions (all eight built-ins, registry and factory)', 'gym_gridverse.design', 'gym_gridverse.rng helpers', 'numpy.random.Generator (real-seeded cases)']
STUB = ['ScriptedRng in place of numpy.random.Generator (scripted cases)']
ASSUMPTIONS = ['non-positive shape/layout entries are outside the quantified domain (the schema rejects them first)',
               'crossing is called with object types constructible without arguments (Wall, MovingObstacle, Floor)']


def generate(seed, run, tier):
    r = stream(seed, PROP, run, 'gen')
    ops = []
    hi = 14
    for i in range(CASES_PER_RUN):
        name = R.RESETS[(run + i) % len(R.RESETS)] if r.random() < 0.6 else r.choice(R.RESETS)
        ops.append(['case', R.gen_params(r, name, hi=hi), r.choice(R.MODES), r.randrange(2**31), r.random() < 0.4])
    return {'property': PROP, 'seed': seed, 'run': run, 'tier': tier, 'debug': r.random() < 0.5, 'ops': ops}


def execute(record, ctx):
    sample = None
    for i, (_, params, mode, seed, via) in enumerate(record['ops']):
        ctx.ticks += 1
        ctx.count('cases')
        out = R.call_reset(params, mode, seed, via)
        name = params['name']
        if isinstance(out, Raised):
            ctx.log('case', i, name, 'raised', out.type)
            if out.type == 'ValueError':
                ctx.count('rejected_with_ValueError:' + name)
            else:
                ctx.violate('wellformed', 'wrong_exception_type', 'reset:' + name, out.type, i, f'{params} ({mode}) raised {out!r}')
            continue
        w = world_of(out)
        ctx.log('case', i, name, wkey(w))
        ctx.count('returned_state:' + name)
        ctx.fault('scripted_' + mode) if mode != 'real' else None
        ctx.distinct.add(sha((name, sorted(params.items(), key=str), wkey(w))))
        ctx.state(wkey(w))
        bad = R.validate(params, w)
        if bad is not None:
            code, cause, detail = bad
            ctx.violate('wellformed', code, 'reset:' + name, cause, i, f'{params} ({mode}, seed {seed}): {detail}')
        if sample is None:
            sample = {'params': params, 'rng': mode, 'agent': list(w['agent'][:3]), 'shape': [w['h'], w['w']]}
    ctx.sample = sample


def simplify(record):
    import copy

    for i, op in enumerate(record['ops']):
        p = op[1]
        for dim in (0, 1):
            if p['shape'][dim] > 1:
                r2 = copy.deepcopy(record)
                r2['ops'][i][1]['shape'][dim] -= 1
                yield r2
        for k in ('num_obstacles', 'num_rivers', 'num_beacons', 'num_exits'):
            if k in p and p[k] > 0:
                r2 = copy.deepcopy(record)
                r2['ops'][i][1][k] -= 1
                yield r2
        if op[4]:
            r2 = copy.deepcopy(record)
            r2['ops'][i][4] = False
            yield r2
