"""gvsim - deterministic simulation harness for gym-gridverse (see /verif/DESIGN.md)."""
