"""viewsim: observation soundness (C05) and occlusion non-interference / monotonicity (C06).

A walking client turns and moves through a free-form world (no mandatory boundary, so views stick
out of the grid) with the real move/turn transition functions; at every read the real observation
function (registry or factory; directly, or through GridWorld when the view has an odd width) is
compared with the ground truth given by M-world's view geometry.
"""
import functools

import numpy as np

from gvsim import model as M
from gvsim import worlds as W
from gvsim.lib import ACTIONS, BUILTIN_TYPES, COLORS, HEADINGS, action_of, area_of, blocks_vision, mk_obj, mk_state, world_of, wkey
from gvsim.scripted_rng import ScriptedRng
from gvsim.sim import Raised, sut

OBS_NAMES = ['fully_transparent', 'partially_occluded', 'raytracing', 'stochastic_raytracing']


def gen_area(r, name, max_extent=7, behind_ok=False):
    """any extent, symmetric or not; origin inside unless the function tolerates it outside"""
    if r.random() < 0.2:
        return [[-6, 0], [-3, 3]]
    vh, vw = r.randint(1, max_extent), r.randint(1, max_extent)
    if r.random() < 0.03:
        # size knob: extents of the form 2^k - 1 (cell-corner counts that are powers of two), a few hundred rays at most
        vh, vw = r.choice([(15, 15), (7, 31), (31, 7), (3, 63), (63, 3), (7, 15), (15, 7), (3, 31), (31, 3), (1, 127), (127, 1)])
    if name == 'partially_occluded':
        # documented for views that end at the agent's row; other views may be refused (the caller decides what a
        # refusal means), and one time in ten they are asked for all the same
        ymax = 0 if (not behind_ok or r.random() < 0.9) else r.choice([r.randint(1, vh - 1) if vh > 1 else 0, -r.randint(1, 3)] if behind_ok == 'any' else [r.randint(1, vh - 1) if vh > 1 else 0])
    elif name == 'fully_transparent' and r.random() < 0.3:
        ymax = r.randint(-3, vh + 2)  # origin possibly outside the view
    else:
        ymax = r.randint(0, vh - 1)
    ymin = ymax - vh + 1
    if name == 'fully_transparent' and r.random() < 0.3:
        xmin = r.randint(-vw - 2, 3)
    else:
        xmin = -r.randint(0, vw - 1)
    return [[ymin, ymax], [xmin, xmin + vw - 1]]


def gen_view_world(r, hmax=7, wmax=7, occluders=False):
    h, w = r.randint(1, hmax), r.randint(1, wmax)
    types = list(BUILTIN_TYPES)
    world = W.gen_world(r, h, w, types, COLORS, density=r.choice([0.2, 0.4, 0.6]) if not occluders else r.choice([0.3, 0.5]), valid_start=False)
    if not occluders and r.random() < 0.08:
        # one object class everywhere, instances differing in colour / status / content
        t = r.choice(['Key', 'Door', 'Exit', 'Telepod', 'Beacon', 'Box'])
        for y in range(h):
            for x in range(w):
                c = r.choice(COLORS)
                world['cells'][y][x] = {'Key': ['Key', c], 'Exit': ['Exit', c], 'Telepod': ['Telepod', c], 'Beacon': ['Beacon', c],
                                        'Door': ['Door', r.choice(['OPEN', 'CLOSED', 'LOCKED']), c], 'Box': ['Box', ['Key', c]]}[t]
        world['monotype'] = t
    if occluders:
        for y in range(h):
            for x in range(w):
                if r.random() < 0.25:
                    world['cells'][y][x] = r.choice([['Wall'], ['Wall'], ['Door', 'CLOSED', r.choice(COLORS)], ['Door', 'LOCKED', r.choice(COLORS)], ['Door', 'OPEN', r.choice(COLORS)]])
    return world


def mk_obs_function(name, area, via_factory, vis=None):
    from gym_gridverse.envs import observation_functions as obs_fs

    a = area_of(area)
    if vis is not None:
        # the generic observation function with an explicitly built visibility function (with parameters)
        from gym_gridverse.envs import visibility_functions as vis_fs

        vf = vis_fs.factory(vis['name'], **{k: v for k, v in vis.items() if k != 'name'})
        if via_factory:
            return obs_fs.factory('from_visibility', area=a, visibility_function=vf)
        return functools.partial(obs_fs.observation_function_registry['from_visibility'], area=a, visibility_function=vf)
    if via_factory:
        return obs_fs.factory(name, area=a)
    return functools.partial(obs_fs.observation_function_registry[name], area=a)


def mk_rng(mode, seed):
    if mode == 'real':
        return np.random.default_rng(seed)
    return ScriptedRng(seed, mode)


def ground_truth(w, area):
    """per view cell: the world cell descriptor, or None when it falls outside the grid"""
    vh, vw = M.view_shape(area)
    out = []
    for vy in range(vh):
        row = []
        for vx in range(vw):
            y, x = M.view_to_world(w, area, vy, vx)
            row.append((w['cells'][y][x], (y, x)) if M.inside(w, y, x) else (None, (y, x)))
        out.append(row)
    return out


def soundness(ctx, i, name, w, area, o):
    """C05 oracle for one observation world o of state world w"""
    vh, vw = M.view_shape(area)
    hd = w['agent'][2]
    if (o['h'], o['w']) != (vh, vw):
        ctx.violate('view', 'shape', name, f'{o["h"]}x{o["w"]}_vs_{vh}x{vw}', i, f'area {area}')
        return False
    gt = ground_truth(w, area)
    shown = 0
    for vy in range(vh):
        for vx in range(vw):
            c = o['cells'][vy][vx]
            truth, pos = gt[vy][vx]
            if c == ('Hidden',):
                if name == 'fully_transparent' and truth is not None:
                    ctx.violate('view', 'in_grid_cell_hidden', name, hd, i, f'view cell {(vy, vx)} = world {pos} is hidden; area {area} agent {w["agent"][:3]}')
                    return False
                continue
            shown += 1
            if truth is None:
                ctx.violate('view', 'shows_cell_outside_grid', name, hd, i, f'view cell {(vy, vx)} maps to {pos} outside {w["h"]}x{w["w"]} but shows {c}; area {area} agent {w["agent"][:3]}')
                return False
            if c != truth:
                ctx.violate('view', 'shows_wrong_object', name, hd, i, f'view cell {(vy, vx)} shows {c}, world cell {pos} holds {truth}; area {area} agent {w["agent"][:3]}')
                return False
    ay, ax = M.view_anchor(area)
    if tuple(o['agent'][:3]) != (ay, ax, 'FORWARD'):
        ctx.violate('view', 'agent_pose', name, hd, i, f'observed agent {o["agent"][:3]}, anchor {(ay, ax)} facing FORWARD')
        return False
    if o['agent'][3] != w['agent'][3]:
        ctx.violate('view', 'held_item', name, w['agent'][3][0], i, f'observed held {o["agent"][3]} vs {w["agent"][3]}')
        return False
    ctx.probe('heading_' + hd)
    if any(t is None for row in gt for (t, _) in row):
        ctx.probe('view_sticks_out_of_grid')
    if shown:
        ctx.probe('cells_shown', shown)
    return True


def ego_grid(w, area):
    """the egocentric slice as a real Grid (Hidden padding), built by the model's geometry"""
    from gym_gridverse.grid import Grid

    gt = ground_truth(w, area)
    return Grid([[mk_obj(t if t is not None else ('Hidden',)) for (t, _) in row] for row in gt]), gt


def mask_of(o):
    return np.array([[c != ('Hidden',) for c in row] for row in o['cells']], dtype=bool)


def chain_ok(vis, opaque, anchor):
    """every visible cell is linked to the anchor by 8-adjacent visible transparent cells"""
    h, w = vis.shape
    ay, ax = anchor
    if not (0 <= ay < h and 0 <= ax < w) or not vis[ay, ax]:
        return False, (ay, ax)
    reach = np.zeros_like(vis)
    reach[ay, ax] = True
    stack = [(ay, ax)]
    while stack:
        y, x = stack.pop()
        if opaque[y, x] and (y, x) != (ay, ax):
            continue  # visible, but light does not travel on from it
        for dy in (-1, 0, 1):
            for dx in (-1, 0, 1):
                yy, xx = y + dy, x + dx
                if 0 <= yy < h and 0 <= xx < w and vis[yy, xx] and not reach[yy, xx]:
                    reach[yy, xx] = True
                    stack.append((yy, xx))
    bad = np.argwhere(vis & ~reach)
    return (len(bad) == 0), (tuple(int(v) for v in bad[0]) if len(bad) else None)


def walk(state, k):
    """one move/turn of the walking client through the real transition functions (in place on a copy)"""
    from gym_gridverse.envs.transition_functions import transition_function_registry as reg
    from gym_gridverse.utils.fast_copy import fast_copy

    a = action_of(ACTIONS[k % 6])
    s = fast_copy(state)
    for f in ('move_agent', 'turn_agent'):
        reg[f](s, a)
    return s
