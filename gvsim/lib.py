"""Descriptors, structural digests, concretise/abstract between JSON worlds and real objects.

A *cell descriptor* is a JSON list:  ["Floor"], ["Wall"], ["Exit", colour], ["Door", status,
colour], ["Key", colour], ["MovingObstacle"], ["Box", <descriptor>], ["Telepod", colour],
["Beacon", colour], ["Hidden"], ["NoneGridObject"], or for unknown (custom) types
["?", type name, state_index, colour].  Descriptors are read from real objects through public
attributes only and never through the repository's __eq__/__hash__ (Box contents included).

A *world* is {"h", "w", "cells": [[descriptor]], "agent": [y, x, heading, held descriptor]}
with heading one of "FORWARD", "RIGHT", "BACKWARD", "LEFT".
"""
import hashlib
import json

from gvsim.bootstrap import boot

boot()

from gym_gridverse.action import Action  # noqa: E402
from gym_gridverse.agent import Agent  # noqa: E402
from gym_gridverse.geometry import Area, Orientation, Position, Shape  # noqa: E402
from gym_gridverse.grid import Grid  # noqa: E402
from gym_gridverse import grid_object as go  # noqa: E402
from gym_gridverse.observation import Observation  # noqa: E402
from gym_gridverse.state import State  # noqa: E402

COLORS = ['NONE', 'RED', 'GREEN', 'BLUE', 'YELLOW']
HEADINGS = ['FORWARD', 'RIGHT', 'BACKWARD', 'LEFT']  # clockwise
ACTIONS = [
    'MOVE_FORWARD',
    'MOVE_BACKWARD',
    'MOVE_LEFT',
    'MOVE_RIGHT',
    'TURN_LEFT',
    'TURN_RIGHT',
    'ACTUATE',
    'PICK_N_DROP',
]
STATUSES = ['OPEN', 'CLOSED', 'LOCKED']
BUILTIN_TYPES = [
    'Floor',
    'Wall',
    'Exit',
    'Door',
    'Key',
    'MovingObstacle',
    'Box',
    'Telepod',
    'Beacon',
]
# heading -> (dy, dx) of "forward" in world coordinates (y grows downward)
FWD = {'FORWARD': (-1, 0), 'RIGHT': (0, 1), 'BACKWARD': (1, 0), 'LEFT': (0, -1)}


def jdump(x):
    return json.dumps(x, sort_keys=True, separators=(',', ':'))


def sha(x):
    return hashlib.sha256(jdump(x).encode()).hexdigest()[:16]


def T(d):
    """descriptor (nested lists) -> hashable nested tuple"""
    return tuple(T(e) if isinstance(e, (list, tuple)) else e for e in d)


# ------------------------------------------------------------------ real -> descriptor


def desc_of(obj):
    n = type(obj).__name__
    if n in ('Floor', 'Wall', 'MovingObstacle', 'Hidden', 'NoneGridObject'):
        return (n,)
    if n == 'Exit':
        return ('Exit', obj.color.name)
    if n == 'Door':
        return ('Door', obj.state.name, obj.color.name)
    if n in ('Key', 'Telepod', 'Beacon'):
        return (n, obj.color.name)
    if n == 'Box':
        return ('Box', desc_of(obj.content))
    return ('?', n, int(obj.state_index), obj.color.name)


def cells_of(grid):
    h, w = grid.shape.height, grid.shape.width
    objs = grid.objects
    return tuple(tuple(desc_of(objs[y][x]) for x in range(w)) for y in range(h))


def agent_of(agent):
    p = agent.position
    return (int(p.y), int(p.x), agent.orientation.name, desc_of(agent.grid_object))


def world_of(s):
    """State or Observation -> world (tuples)"""
    g = s.grid
    return {
        'h': g.shape.height,
        'w': g.shape.width,
        'cells': cells_of(g),
        'agent': agent_of(s.agent),
    }


def wkey(world):
    """hashable key of a world"""
    return (world['h'], world['w'], T(world['cells']), T(world['agent']))


def state_key(s):
    return (s.grid.shape.height, s.grid.shape.width, cells_of(s.grid), agent_of(s.agent))


def digest_state(s):
    return sha(state_key(s))


# ------------------------------------------------------------------ descriptor -> real


def mk_obj(d):
    n = d[0]
    if n == 'Floor':
        return go.Floor()
    if n == 'Wall':
        return go.Wall()
    if n == 'Exit':
        return go.Exit(go.Color[d[1]]) if len(d) > 1 else go.Exit()
    if n == 'Door':
        if DOOR_ASSIGN:
            # a door built with another status and then set (Door.state is a plain public attribute; the library's own
            # transition assigns it): cycles through the two other statuses
            global _door_cycle
            _door_cycle += 1
            other = [s for s in STATUSES if s != d[1]][_door_cycle % 2]
            door = go.Door(go.Door.Status[other], go.Color[d[2]])
            door.state = go.Door.Status[d[1]]
            return door
        return go.Door(go.Door.Status[d[1]], go.Color[d[2]])
    if n == 'Key':
        return go.Key(go.Color[d[1]])
    if n == 'MovingObstacle':
        return go.MovingObstacle()
    if n == 'Box':
        return go.Box(mk_obj(d[1]))
    if n == 'Telepod':
        return go.Telepod(go.Color[d[1]])
    if n == 'Beacon':
        return go.Beacon(go.Color[d[1]])
    if n == 'Hidden':
        return go.Hidden()
    if n == 'NoneGridObject':
        return go.NoneGridObject()
    if n == '?':
        return go.grid_object_registry.from_name(d[1])()
    raise ValueError(f'bad descriptor {d}')


ALIAS = False  # swarm knob (set per run by the kernel): equal objects of immutable types share one instance
_ALIASABLE = ('Floor', 'Wall', 'Exit', 'Key', 'MovingObstacle', 'Telepod', 'Beacon')


def set_alias(flag):
    global ALIAS
    ALIAS = bool(flag)


HELD_ASSIGN = False  # swarm knob: the agent's held item is assigned after construction
NUMPY_COORDS = False  # swarm knob: agent positions carry numpy integer coordinates


def set_held_assign(flag):
    global HELD_ASSIGN
    HELD_ASSIGN = bool(flag)


def set_numpy_coords(flag):
    global NUMPY_COORDS
    NUMPY_COORDS = bool(flag)


DOOR_ASSIGN = False  # swarm knob: doors are constructed with another status, then assigned the wanted one
_door_cycle = 0


def set_door_assign(flag):
    global DOOR_ASSIGN, _door_cycle
    DOOR_ASSIGN = bool(flag)
    _door_cycle = 0


FROM_SHAPE = False  # swarm knob: build grids with Grid.from_shape(factory=...) and assign the remaining cells


def set_from_shape(flag):
    global FROM_SHAPE
    FROM_SHAPE = bool(flag)


def _grid_from_shape(world, mk):
    """Grid.from_shape with a factory for the most frequent cell kind (doors preferred, so that a factory making
    mutable objects is exercised), every other cell assigned through Grid.__setitem__"""
    import collections

    counts = collections.Counter(T(c) for row in world['cells'] for c in row)
    doors = [(n, d) for d, n in counts.items() if d[0] == 'Door' and n >= 2]
    base = max(doors)[1] if doors else counts.most_common(1)[0][0]
    grid = Grid.from_shape((world['h'], world['w']), factory=lambda: mk_obj(base))
    for y, row in enumerate(world['cells']):
        for x, c in enumerate(row):
            if T(c) != base:
                grid[y, x] = mk(c)
    return grid


def mk_state(world):
    """concretise a world.  With the ALIAS knob on, cells holding equal objects of types the library never
    mutates in place share ONE instance (as a user writing `[Telepod(c)] * 2` would produce): object identity
    structure is a dimension of the state space too."""
    if ALIAS:
        pool = {}

        def mk(c):
            if c[0] in _ALIASABLE:
                k = T(c)
                if k not in pool:
                    pool[k] = mk_obj(c)
                return pool[k]
            return mk_obj(c)
    else:
        mk = mk_obj
    if FROM_SHAPE:
        grid = _grid_from_shape(world, mk)
    else:
        grid = Grid([[mk(c) for c in row] for row in world['cells']])
    y, x, o, held = world['agent']
    if NUMPY_COORDS:
        # positions with numpy integer coordinates (what `rng.integers` hands the library's own reset functions)
        import numpy as np

        pos = Position(np.int64(y), np.int64(x))
    else:
        pos = Position(y, x)
    if HELD_ASSIGN:
        # the held item arrives by attribute assignment (as `pickndrop` does it), not through the constructor
        agent = Agent(pos, Orientation[o])
        agent.grid_object = mk(held)
    else:
        agent = Agent(pos, Orientation[o], mk(held))
    return State(grid, agent)


def mk_observation(world):
    s = mk_state(world)
    return Observation(s.grid, s.agent)


def type_of(name):
    return go.grid_object_registry.from_name(name)


def color_of(d):
    n = d[0]
    if n in ('Exit', 'Key', 'Telepod', 'Beacon'):
        return d[1] if len(d) > 1 else 'NONE'
    if n == 'Door':
        return d[2]
    if n == '?':
        return d[3]
    return 'NONE'


# ------------------------------------------------------------------ static flags by descriptor
# (written from the documentation of the grid objects, not read from the classes)


def blocks_movement(d):
    n = d[0]
    if n in ('Wall', 'Box'):
        return True
    if n == 'Door':
        return d[1] != 'OPEN'
    return False


def blocks_vision(d):
    n = d[0]
    if n in ('Wall', 'Hidden', 'NoneGridObject'):
        return True
    if n == 'Door':
        return d[1] != 'OPEN'
    return False


def holdable(d):
    return d[0] == 'Key'


def types_in(world):
    """set of type names on the grid (top level only, like Grid.object_types)"""
    out = set()
    for row in world['cells']:
        for c in row:
            out.add(c[1] if c[0] == '?' else c[0])
    return out


def area_of(a):
    return Area((a[0][0], a[0][1]), (a[1][0], a[1][1]))


def action_of(name):
    return Action[name]


__all__ = [n for n in dir() if not n.startswith('_')]
