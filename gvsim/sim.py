"""The simulated system: clients (environment stacks built from real code), an adversary acting
on process-global state, and a scheduler that is simply the order of `ops` in the run record
(the generator interleaves the actors with a seeded stream; one op = one public API call =
one tick).  Monitors are objects with optional hooks (on_reset, on_step, on_obs, on_op, on_end).

op = [actor, name, *args];  actor is a client index or 'adv'.
"""
import functools
import math
import os

import numpy as np

from gvsim import model as M
from gvsim.bootstrap import REPO, HarnessError
from gvsim.lib import (
    ACTIONS,
    action_of,
    area_of,
    mk_state,
    state_key,
    type_of,
    world_of,
    wkey,
)

from gym_gridverse import debugging, rng as gvrng  # noqa: E402
from gym_gridverse.action import Action  # noqa: E402
from gym_gridverse.envs import (  # noqa: E402
    observation_functions as obs_fs,
    reset_functions as reset_fs,
    reward_functions as reward_fs,
    terminating_functions as term_fs,
    transition_functions as trans_fs,
)
from gym_gridverse.envs.gridworld import GridWorld  # noqa: E402
from gym_gridverse.geometry import Position, Shape, distance_function_factory  # noqa: E402
from gym_gridverse.grid_object import Color  # noqa: E402
from gym_gridverse.spaces import ActionSpace, ObservationSpace, StateSpace  # noqa: E402
from gym_gridverse.utils import raytracing  # noqa: E402

POOL_CAP = 24


class Raised:
    """an exception raised by the system under test, as an outcome"""

    def __init__(self, e):
        self.type = type(e).__name__
        self.msg = str(e)[:200]
        self.exc = e

    def __repr__(self):
        return f'Raised({self.type}: {self.msg})'


def sut(f, *a, **k):
    """call into the library; its exceptions are outcomes, not harness errors"""
    try:
        return f(*a, **k)
    except (KeyboardInterrupt, SystemExit, MemoryError):
        raise
    except Exception as e:  # noqa: BLE001
        from gvsim.kernel import RunTimeout

        if isinstance(e, (RunTimeout, HarnessError)):
            raise
        return Raised(e)


# ------------------------------------------------------------------ spec helpers


def yaml_path(name):
    return os.path.join(REPO, name) if '/' in name else os.path.join(REPO, 'yaml', name)


def load_yaml_data(name):
    import yaml

    with open(yaml_path(name)) as f:
        return yaml.safe_load(f)


def spec_from_yaml_data(data):
    """model-side reading of configuration data into the spec vocabulary of this harness"""

    def rew(d):
        d = dict(d)
        if 'reward_functions' in d:
            d['parts'] = [rew(x) for x in d.pop('reward_functions')]
        return d

    def term(d):
        d = dict(d)
        if 'terminating_functions' in d:
            d['parts'] = [term(x) for x in d.pop('terminating_functions')]
        return d

    return {
        'chain': [t['name'] for t in data['transition_functions']],
        'rewards': [rew(r) for r in data['reward_functions']],
        'term': term(data['terminating_function']),
        'obs': dict(data['observation_function']),
        'actions': list(data.get('action_space', ACTIONS)),
        'types': list(data['state_space']['objects']),
        'colors': list(data['state_space']['colors']),
        'obs_types': list(data['observation_space']['objects']),
        'obs_colors': list(data['observation_space']['colors']),
        'reset': dict(data['reset_function']),
    }


def reward_kwargs(spec):
    kw = {}
    for k, v in spec.items():
        if k in ('name', 'parts'):
            continue
        if k == 'object_type':
            v = type_of(v)
        elif k == 'distance_function':
            v = distance_function_factory(v)
        kw[k] = v
    return kw


def reset_kwargs(spec):
    kw = {}
    for k, v in spec.items():
        if k == 'name':
            continue
        if k == 'shape':
            v = Shape(*v)
        elif k == 'layout':
            v = tuple(v)
        elif k == 'object_type':
            v = type_of(v)
        elif k == 'colors':
            v = set(Color[c] for c in v)
        kw[k] = v
    return kw


# ------------------------------------------------------------------ clients


class Client:
    def __init__(self, idx, spec, sim):
        self.idx = idx
        self.spec = spec
        self.sim = sim
        self.complog = []  # (name, world before, world after, rng_is_env_rng)
        self.rlog = []  # (path, value) of reward parts
        self.tlog = []  # (path, value) of termination parts
        self.obs_calls = 0
        self.pool = []
        self.valid = []  # lineage flag per pool entry (C08 history invariant)
        self.started = False
        self.history = []  # per-op digests (C02)
        self.meta = {}
        if spec['kind'] == 'yaml':
            self._build_yaml()
        else:
            self._build_hand()
        self.actions = list(self.mspec['actions'])
        if not spec.get('unseeded'):
            self.env.set_seed(spec.get('env_seed', 0))
        # (an environment that is never given a seed draws from the library-level generator, as documented)
        for w in spec.get('pool_worlds', []):
            self.pool.append(mk_state(w))
            self.valid.append(False)

    # -- construction -------------------------------------------------------------
    def _build_yaml(self):
        from gym_gridverse.envs.yaml.factory import factory_env_from_yaml

        edit = self.spec.get('yaml_edit')
        if edit:
            import copy

            from gym_gridverse.envs.yaml.factory import factory_env_from_data

            data = copy.deepcopy(load_yaml_data(self.spec['yaml']))
            if 'dup_reward' in edit:
                k, scale = edit['dup_reward']
                src = data['reward_functions'][k % len(data['reward_functions'])]
                data['reward_functions'].append({kk: (vv * scale if isinstance(vv, float) else vv) for kk, vv in src.items()})
                self.sim.ctx.probe('knob:yaml_duplicate_reward_name')
            if 'reorder_actions' in edit:
                import random

                acts = list(data.get('action_space', ACTIONS))
                random.Random(edit['reorder_actions']).shuffle(acts)
                data['action_space'] = acts  # index i means the i-th configured action
                self.sim.ctx.probe('knob:yaml_reordered_actions')
            self.mspec = spec_from_yaml_data(data)
            self.env = factory_env_from_data(copy.deepcopy(data))
        else:
            self.mspec = spec_from_yaml_data(load_yaml_data(self.spec['yaml']))
            self.env = factory_env_from_yaml(yaml_path(self.spec['yaml']))
        self.proxied = False

    def _build_hand(self):
        spec = self.spec
        self.mspec = spec
        self.proxied = True
        via_factory = spec.get('via_factory', False)
        treg = trans_fs.transition_function_registry
        comps = [self._tproxy(n, trans_fs.factory(n) if via_factory else treg[n]) for n in spec['chain']]
        # chains inside the chain (chain is itself a registered transition function); groups are disjoint ranges
        groups = sorted([g for g in (spec.get('nest'), spec.get('nest2')) if g], reverse=True)
        for (i, j) in groups:
            inner = comps[i:j]
            if inner:
                nested = (trans_fs.factory('chain', transition_functions=inner) if via_factory
                          else functools.partial(treg['chain'], transition_functions=inner))
                comps = comps[:i] + [nested] + comps[j:]
        if via_factory:
            transition = trans_fs.factory('chain', transition_functions=comps)
        else:
            transition = functools.partial(treg['chain'], transition_functions=comps)
        rparts = [self._mk_reward(p, (i,)) for i, p in enumerate(spec['rewards'])]
        reward = functools.partial(reward_fs.reward_function_registry['reduce_sum'], reward_functions=rparts)
        terminating = self._mk_term(spec['term'], ())
        self.rparts, self.tfun, self.transition = rparts, terminating, transition
        area = area_of(spec['obs']['area'])
        okw = {k: v for k, v in spec['obs'].items() if k not in ('name', 'area')}
        if via_factory:
            obs_f = obs_fs.factory(spec['obs']['name'], area=area, **okw)
        else:
            obs_f = functools.partial(obs_fs.observation_function_registry[spec['obs']['name']], area=area, **okw)
        observation = self._oproxy(obs_f)
        if spec.get('reset') is not None:
            r = spec['reset']
            reset = reset_fs.factory(r['name'], **reset_kwargs(r))
            shape = Shape(*r['shape'])
        else:
            world = spec['world']

            def reset(*, rng=None, _w=world):
                return mk_state(_w)

            shape = Shape(world['h'], world['w'])
        vh, vw = M.view_shape(spec['obs']['area'])
        types = [type_of(t) for t in spec['types']]
        colors = [Color[c] for c in spec['colors']]
        otypes = [type_of(t) for t in spec.get('obs_types', spec['types'])]
        ocolors = [Color[c] for c in spec.get('obs_colors', spec['colors'])]
        self.env = GridWorld(
            StateSpace(shape, types, colors),
            ActionSpace([Action[a] for a in spec['actions']]),
            ObservationSpace(Shape(vh, vw), otypes, ocolors),
            reset,
            transition,
            observation,
            reward,
            terminating,
        )

    def _tproxy(self, name, f):
        def wrapped(state, action, *, rng=None):
            before = world_of(state)
            try:
                return f(state, action, rng=rng)
            finally:
                self.complog.append((name, before, world_of(state), rng is getattr(self.env, '_rng', None)))

        return wrapped

    def _mk_reward(self, spec, path):
        reg = reward_fs.reward_function_registry
        via_factory = self.spec.get('via_factory', False)
        if spec['name'] == 'reduce_sum':
            parts = [self._mk_reward(p, path + (i,)) for i, p in enumerate(spec['parts'])]
            f = (reward_fs.factory('reduce_sum', reward_functions=parts) if via_factory
                 else functools.partial(reg['reduce_sum'], reward_functions=parts))
        elif spec['name'] == 'reduce':
            parts = [self._mk_reward(p, path + (i,)) for i, p in enumerate(spec['parts'])]
            red = {'max': max, 'min': min, 'sum': sum, 'first': lambda v: list(v)[0], 'last': lambda v: list(v)[-1]}[spec['reduction']]
            f = (reward_fs.factory('reduce', reward_functions=parts, reduction=red) if via_factory
                 else functools.partial(reg['reduce'], reward_functions=parts, reduction=red))
        elif via_factory:
            f = reward_fs.factory(spec['name'], **reward_kwargs(spec))  # the component's own factory(name, **kwargs)
        else:
            f = functools.partial(reg[spec['name']], **reward_kwargs(spec))

        def wrapped(state, action, next_state, *, rng=None):
            v = f(state, action, next_state, rng=rng)
            self.rlog.append((path, v))
            return v

        return wrapped

    def _mk_term(self, spec, path):
        reg = term_fs.terminating_function_registry
        via_factory = self.spec.get('via_factory', False)
        if spec['name'] in ('reduce_any', 'reduce_all'):
            parts = [self._mk_term(p, path + (i,)) for i, p in enumerate(spec['parts'])]
            f = (term_fs.factory(spec['name'], terminating_functions=parts) if via_factory
                 else functools.partial(reg[spec['name']], terminating_functions=parts))
        elif via_factory:
            f = term_fs.factory(spec['name'], **reward_kwargs(spec))
        else:
            f = functools.partial(reg[spec['name']], **reward_kwargs(spec))

        def wrapped(state, action, next_state, *, rng=None):
            v = f(state, action, next_state, rng=rng)
            self.tlog.append((path, v))
            return v

        return wrapped

    def _oproxy(self, f):
        def wrapped(state, *, rng=None):
            self.obs_calls += 1
            return f(state, rng=rng)

        return wrapped

    # -- pool ---------------------------------------------------------------------
    def add_pool(self, state, valid):
        if len(self.pool) < POOL_CAP:
            self.pool.append(state)
            self.valid.append(valid)
        else:
            j = 1 + (len(self.history) + self.sim.ctx.ticks) % (POOL_CAP - 1)
            self.pool[j] = state
            self.valid[j] = valid

    def rng_state(self):
        g = getattr(self.env, '_rng', None)
        if g is None or not hasattr(g, 'bit_generator'):
            return None
        st = g.bit_generator.state
        return (st['state']['state'], st['state']['inc'], st.get('has_uint32'), st.get('uinteger'))


# ------------------------------------------------------------------ guided policies


def guided_action(world, goal, tname, actions):
    """first action of a shortest plan (MOVE_FORWARD / TURN_*) to a pose satisfying the goal,
    computed on the model world; None if no plan."""
    from collections import deque

    h, w = world['h'], world['w']
    cells = world['cells']

    def ok_goal(y, x, hd):
        if goal == 'on':
            return cells[y][x][0] == tname
        if goal == 'facing':
            dy, dx = M.FWD[hd]
            yy, xx = y + dy, x + dx
            return 0 <= yy < h and 0 <= xx < w and cells[yy][xx][0] == tname
        if goal == 'face_out':
            dy, dx = M.FWD[hd]
            yy, xx = y + dy, x + dx
            return not (0 <= yy < h and 0 <= xx < w)
        return False

    y0, x0, h0, _ = world['agent']
    if not (0 <= y0 < h and 0 <= x0 < w):
        return None
    if ok_goal(y0, x0, h0):
        if goal == 'facing':
            return {'Key': 'PICK_N_DROP', 'Door': 'ACTUATE', 'Box': 'ACTUATE', 'Floor': 'PICK_N_DROP'}.get(tname, 'MOVE_FORWARD')
        if goal == 'face_out':
            return None
        return None
    start = (y0, x0, h0)
    seen = {start}
    dq = deque([(start, None)])
    while dq:
        (y, x, hd), first = dq.popleft()
        for a in ('MOVE_FORWARD', 'TURN_LEFT', 'TURN_RIGHT'):
            if a not in actions:
                continue
            if a == 'MOVE_FORWARD':
                dy, dx = M.FWD[hd]
                yy, xx = y + dy, x + dx
                if not (0 <= yy < h and 0 <= xx < w) or M.blocks_movement(cells[yy][xx]):
                    continue
                if goal != 'on' and cells[yy][xx][0] in ('Exit', 'MovingObstacle'):
                    pass
                nxt = (yy, xx, hd)
            else:
                nxt = (y, x, M.rot(hd, M.TURNS[a]))
            if nxt in seen:
                continue
            seen.add(nxt)
            f = first or a
            if ok_goal(*nxt):
                return f
            dq.append((nxt, f))
    return None


# ------------------------------------------------------------------ the simulator


class Sim:
    def __init__(self, record, ctx, monitors):
        self.record = record
        self.ctx = ctx
        self.monitors = monitors
        self.clients = [Client(i, spec, self) for i, spec in enumerate(record['clients'])]
        self.op_index = -1
        for spec in record.get('clients', []):
            for k in spec.get('knobs', []) if isinstance(spec, dict) else []:
                ctx.probe('knob:' + k)
            if isinstance(spec, dict) and spec.get('via_factory'):
                ctx.probe('knob:components_through_factories')
        if record.get('alias_objects'):
            ctx.probe('knob:object_identity_aliasing')
        if record.get('held_item_assigned'):
            ctx.probe('knob:held_item_assigned_after_construction')
        if record.get('numpy_coordinates'):
            ctx.probe('knob:numpy_integer_coordinates')
        if record.get('door_status_assigned'):
            ctx.probe('knob:door_status_assigned_after_construction')
        if record.get('grid_from_shape'):
            ctx.probe('knob:grid_built_with_from_shape')
        for m in monitors:
            m.sim = self
            if hasattr(m, 'on_start'):
                m.on_start(self)

    def emit(self, hook, *a):
        for m in self.monitors:
            f = getattr(m, hook, None)
            if f is not None:
                f(*a)

    def violate(self, monitor, code, site='-', cause='-', detail=''):
        return self.ctx.violate(monitor, code, site, cause, self.op_index, detail)

    # -- main loop ----------------------------------------------------------------
    def run(self):
        for i, op in enumerate(self.record['ops']):
            self.op_index = i
            self.ctx.ticks += 1
            actor, name, args = op[0], op[1], op[2:]
            self.ctx.log('OP', i, actor, name, args)
            if actor == 'adv':
                getattr(self, 'adv_' + name)(*args)
            else:
                if not self.clients:
                    continue
                cl = self.clients[actor % len(self.clients)]
                self.emit('before_op', cl, name, args)
                getattr(self, 'op_' + name)(cl, *args)
                self.emit('after_op', cl, name, args)
        self.op_index = len(self.record['ops'])
        self.emit('on_end', self)

    # -- client ops ---------------------------------------------------------------
    def op_set_seed(self, cl, seed):
        cl.env.set_seed(seed)
        cl.meta['seeded'] = True
        self.emit('on_set_seed', cl, seed)
        self.ctx.log('seed', cl.idx, seed)

    def op_reset(self, cl):
        cl.complog.clear()
        r = sut(cl.env.reset)
        ev = {'kind': 'reset', 'out': r}
        if not isinstance(r, Raised):
            cl.started = True
            s = cl.env.state
            ev['s1'] = s
            ev['w1'] = world_of(s)
            if not cl.pool:
                cl.pool.append(s)
                cl.valid.append(True)
            else:
                cl.pool[0] = s
                cl.valid[0] = True
            cl.cur_valid = True
            self.ctx.state(wkey(ev['w1']))
            self.ctx.log('reset', cl.idx, wkey(ev['w1']))
        else:
            self.ctx.count('sut_exception')
            self.ctx.log('reset', cl.idx, repr(r))
        self.emit('on_reset', cl, ev)

    def _action(self, cl, k):
        return cl.actions[k % len(cl.actions)]

    def op_step(self, cl, k):
        if not cl.started:
            return
        self._stateful_step(cl, self._action(cl, k))

    def op_guided(self, cl, goal, tname, k):
        if not cl.started:
            return
        w = world_of(cl.env.state)
        a = guided_action(w, goal, tname, cl.actions)
        if a is None or a not in cl.actions:
            a = self._action(cl, k)
        else:
            self.ctx.probe('guided:' + goal)
        self._stateful_step(cl, a)

    def _stateful_step(self, cl, aname):
        s0 = cl.env.state
        w0 = world_of(s0)
        cl.complog.clear()
        cl.rlog.clear()
        cl.tlog.clear()
        if cl.spec.get('int_actions') and aname in cl.actions and self.op_index % 2 == 0:
            # the action arrives as an index into the action list (what the gym layer does), every other step
            idx = cl.actions.index(aname)
            if self.op_index % 4 == 0:
                # ... as a numpy integer, which is what gym's Discrete.sample() returns
                import numpy as np

                idx = np.int64(idx)
                self.ctx.probe('action_given_as_numpy_index')
            self.ctx.probe('action_given_as_index')
            r = sut(lambda: cl.env.step(cl.env.action_space.int_to_action(idx)))
        else:
            r = sut(cl.env.step, action_of(aname))
        ev = {'kind': 'step', 'stateful': True, 's0': s0, 'w0': w0, 'action': aname, 'out': r,
              'complog': list(cl.complog), 'rlog': list(cl.rlog), 'tlog': list(cl.tlog),
              'valid0': getattr(cl, 'cur_valid', False)}
        self._finish_step(cl, ev, lambda: cl.env.state)

    def _finish_step(self, cl, ev, get_s1):
        r = ev['out']
        # the input state must not have been modified (needed to keep w0 meaningful)
        ev['w0_after'] = world_of(ev['s0'])
        if isinstance(r, Raised):
            self.ctx.count('sut_exception')
            self.ctx.log('step', cl.idx, ev['action'], repr(r))
        else:
            if ev.get('stateful'):
                ev['reward'], ev['terminal'] = r
                s1 = get_s1()
            else:
                s1, ev['reward'], ev['terminal'] = r
            ev['s1'] = s1
            ev['w1'] = world_of(s1)
            self.ctx.state(wkey(ev['w1']))
            self.ctx.log('step', cl.idx, ev['action'], wkey(ev['w1']), repr(ev['reward']), bool(ev['terminal']))
            if ev.get('stateful'):
                cl.pool[0] = s1
            else:
                cl.add_pool(s1, ev['valid0'])
        self.emit('on_step', cl, ev)

    def op_fstep(self, cl, i, k):
        if not cl.pool:
            return
        j = i % len(cl.pool)
        s0 = cl.pool[j]
        aname = self._action(cl, k)
        w0 = world_of(s0)
        cl.complog.clear()
        cl.rlog.clear()
        cl.tlog.clear()
        r = sut(cl.env.functional_step, s0, action_of(aname))
        ev = {'kind': 'step', 'stateful': False, 's0': s0, 'w0': w0, 'action': aname, 'out': r,
              'complog': list(cl.complog), 'rlog': list(cl.rlog), 'tlog': list(cl.tlog),
              'valid0': cl.valid[j], 'pool_index': j}
        self._finish_step(cl, ev, None)

    def op_scan(self, cl, aname, i):
        """one action from every agent pose (cell x heading) of one map, functionally"""
        if not cl.pool or aname not in cl.actions:
            return
        base = world_of(cl.pool[i % len(cl.pool)])
        self.ctx.probe('pose_scan')
        for y in range(base['h']):
            for x in range(base['w']):
                for hd in ('FORWARD', 'RIGHT', 'BACKWARD', 'LEFT'):
                    w0 = dict(base, agent=(y, x, hd, base['agent'][3]))
                    s0 = mk_state(w0)
                    w0 = world_of(s0)
                    cl.complog.clear()
                    cl.rlog.clear()
                    cl.tlog.clear()
                    r = sut(cl.env.functional_step, s0, action_of(aname))
                    ev = {'kind': 'step', 'stateful': False, 's0': s0, 'w0': w0, 'action': aname, 'out': r,
                          'complog': list(cl.complog), 'rlog': list(cl.rlog), 'tlog': list(cl.tlog), 'valid0': False, 'scan': True}
                    ev['w0_after'] = world_of(s0)
                    if isinstance(r, Raised):
                        self.ctx.count('sut_exception')
                    else:
                        ev['s1'], ev['reward'], ev['terminal'] = r
                        ev['w1'] = world_of(r[0])
                    self.emit('on_step', cl, ev)
        self.ctx.log('scan', cl.idx, aname, wkey(base))

    def op_fobs(self, cl, i):
        if not cl.pool:
            return
        s = cl.pool[i % len(cl.pool)]
        w = world_of(s)
        r = sut(cl.env.functional_observation, s)
        ev = {'kind': 'obs', 'stateful': False, 's': s, 'w': w, 'out': r, 'w_after': world_of(s)}
        if not isinstance(r, Raised):
            ev['o'] = world_of(r)
            self.ctx.log('fobs', cl.idx, wkey(ev['o']))
        else:
            self.ctx.count('sut_exception')
            self.ctx.log('fobs', cl.idx, repr(r))
        self.emit('on_obs', cl, ev)

    def op_read_obs(self, cl, n):
        """read the stateful observation n times"""
        if not cl.started:
            return
        s = cl.env.state
        w = world_of(s)
        outs = []
        calls0 = cl.obs_calls
        g0 = cl.rng_state()
        for _ in range(max(1, n)):
            r = sut(lambda: cl.env.observation)
            outs.append(r)
        ev = {'kind': 'obs', 'stateful': True, 's': s, 'w': w, 'out': outs[0], 'outs': outs,
              'calls': cl.obs_calls - calls0, 'g0': g0, 'g1': cl.rng_state(), 'w_after': world_of(s)}
        if not isinstance(outs[0], Raised):
            ev['o'] = world_of(outs[0])
            self.ctx.log('obs', cl.idx, wkey(ev['o']), n)
        else:
            self.ctx.count('sut_exception')
            self.ctx.log('obs', cl.idx, repr(outs[0]))
        self.emit('on_obs', cl, ev)

    def op_turns(self, cl, pattern):
        """turn patterns that must restore the heading (LR, RL, LLLL, RRRR)"""
        if not cl.started:
            return
        names = {'L': 'TURN_LEFT', 'R': 'TURN_RIGHT'}
        if any(names[c] not in cl.actions for c in pattern):
            return
        w0 = world_of(cl.env.state)
        clean = True
        for c in pattern:
            n_exc = self.ctx.stats['sut_exception']
            self._stateful_step(cl, names[c])
            clean = clean and self.ctx.stats['sut_exception'] == n_exc
        self.emit('on_turns', cl, pattern, w0, world_of(cl.env.state), clean)
        self.ctx.probe('turn_pattern')

    def op_read_state(self, cl):
        r = sut(lambda: cl.env.state)
        self.emit('on_read_state', cl, r)
        self.ctx.log('read_state', cl.idx, 'raised' if isinstance(r, Raised) else 'ok')

    # -- adversary ops (process-global state only) -----------------------------------
    def adv_reseed_gv(self, s):
        gvrng.reset_gv_rng(s)
        self.ctx.fault('reseed_gv')

    def adv_draw_gv(self, n):
        gvrng.get_gv_rng().random(n)
        self.ctx.fault('draw_gv')

    def adv_np_seed(self, s):
        np.random.seed(s)
        self.ctx.fault('np_seed')

    def adv_np_draw(self, n):
        np.random.random(n)
        self.ctx.fault('np_draw')

    def adv_py_seed(self, s):
        import random

        random.seed(s)
        self.ctx.fault('py_seed')

    def adv_py_draw(self, n):
        import random

        for _ in range(n):
            random.random()
        self.ctx.fault('py_draw')

    def adv_debug(self, b):
        debugging.reset_gv_debug(bool(b))
        self.ctx.fault('debug_flip')

    def adv_clear_caches(self):
        from gvsim.kernel import clear_caches

        clear_caches()
        self.ctx.fault('clear_caches')

    def adv_cache_pressure(self, n, salt):
        """n distinct shortest-path layouts and ray areas, to force eviction"""
        for i in range(n):
            k = (salt + i) % 97
            layout = tuple(tuple(((y * 7 + x * 3 + k) % 5) != 0 for x in range(4)) for y in range(4))
            reward_fs.dijkstra(layout, (k % 4, (k // 4) % 4))
        from gym_gridverse.geometry import Area

        a = 1 + salt % 3
        raytracing.cached_compute_rays_fancy(Position(0, 0), Area((0, a), (0, 1 + (salt // 3) % 3)))
        self.ctx.fault('cache_pressure')


def inject_rng(env, rng):
    """replace the environment's own generator (private attribute `_rng`, see DESIGN.md section 3.3).
    If a refactoring renamed it, that is a failure of the harness, never a verdict."""
    if not hasattr(env, '_rng'):
        raise HarnessError('GridWorld has no attribute _rng any more: the generator seam of the harness must be updated')
    env._rng = rng


def finite_float(v):
    return isinstance(v, (float, np.floating)) and math.isfinite(v)


def is_bool(v):
    return isinstance(v, (bool, np.bool_))
