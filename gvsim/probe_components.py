"""User-style extensions registered by the harness (the documented way to add components: decorate a function with the
registry's `register`).  Each has an OPTIONAL parameter, which no built-in component of its kind has."""
from gym_gridverse.envs.reward_functions import reward_function_registry
from gym_gridverse.envs.terminating_functions import terminating_function_registry
from gym_gridverse.envs.transition_functions import transition_function_registry


@transition_function_registry.register
def probe_repeated_turn(state, action, *, repeats: int = 1, rng=None) -> None:
    """turns the agent `repeats` quarter turns to the right on ACTUATE (a probe, not a game mechanic)"""
    from gym_gridverse.action import Action
    from gym_gridverse.geometry import Orientation

    if action is Action.ACTUATE:
        for _ in range(repeats):
            state.agent.orientation = state.agent.orientation * Orientation.R


@reward_function_registry.register
def probe_scaled_living(state, action, next_state, *, reward: float = -1.0, scale: float = 1.0, rng=None) -> float:
    return reward * scale


@terminating_function_registry.register
def probe_facing(state, action, next_state, *, heading: str = 'F', rng=None) -> bool:
    return next_state.agent.orientation.name == heading
