"""Bootstrap: put the repository under test on sys.path, provide PyYAML, import it.

No file of the repository is modified and nothing is installed.  The repo root is taken
from VERIF_REPO (default /repo).  The guard variable GYM_GRIDVERSE_VERIF is exported (there
are no hooks behind it at present; see DESIGN.md section 2).
"""
import importlib.util
import os
import sys
import warnings

sys.dont_write_bytecode = True
os.environ.setdefault('GYM_GRIDVERSE_VERIF', '1')

REPO = os.path.realpath(os.environ.get('VERIF_REPO', '/repo'))
VERIF = os.path.dirname(os.path.dirname(os.path.abspath(__file__)))
YAML_PARSER = 'unset'
_done = False


class HarnessError(Exception):
    """Raised for failures of the machinery itself (never a property verdict)."""


def _load_yaml():
    global YAML_PARSER
    # /repo/yaml is a data directory that shadows the name `yaml` as a namespace package;
    # load the pure-python PyYAML that ships with the system python explicitly.
    for base in ('/usr/lib/python3/dist-packages/yaml',):
        init = os.path.join(base, '__init__.py')
        if os.path.exists(init):
            spec = importlib.util.spec_from_file_location(
                'yaml', init, submodule_search_locations=[base]
            )
            mod = importlib.util.module_from_spec(spec)
            sys.modules['yaml'] = mod
            try:
                spec.loader.exec_module(mod)
                YAML_PARSER = f'PyYAML {mod.__version__} (pure python, {base})'
                return
            except Exception:  # pragma: no cover
                sys.modules.pop('yaml', None)
    from gvsim import miniyaml

    sys.modules['yaml'] = miniyaml
    YAML_PARSER = 'stub (gvsim.miniyaml)'


def boot():
    """idempotent; returns the imported gym_gridverse package"""
    global _done
    if REPO not in sys.path:
        sys.path.insert(0, REPO)
    ex = os.path.join(REPO, 'examples')
    if ex not in sys.path:
        sys.path.append(ex)
    if not _done:
        warnings.filterwarnings('ignore')
        _load_yaml()
        try:
            import pkg_resources  # noqa: F401  (makes the vendored more_itertools importable)
        except Exception:
            pass
        try:
            import more_itertools  # noqa: F401
        except ImportError:
            import glob

            for cand in glob.glob(
                os.path.join(sys.prefix, 'lib', 'python*', 'site-packages', 'setuptools', '_vendor')
            ):
                sys.path.append(cand)
    try:
        import gym_gridverse
    except Exception as e:  # import failure is a harness error, never a verdict
        raise HarnessError(f'cannot import gym_gridverse from {REPO}: {e!r}')
    where = os.path.realpath(gym_gridverse.__file__)
    if not where.startswith(REPO + os.sep):
        raise HarnessError(f'gym_gridverse imported from {where}, expected under {REPO}')
    _done = True
    return gym_gridverse
