"""M-world: a small executable reference model of the documented dynamics, rewards,
termination and view geometry.  Written from the property statements and the documentation,
operating on descriptor worlds (gvsim.lib), never on repository objects.

Worlds handled here are *mutable lists*:  cells is a list of lists of descriptor tuples and
agent a list [y, x, heading, held].
"""
import math

from gvsim.lib import FWD, HEADINGS, blocks_movement, holdable

MOVES = {'MOVE_FORWARD': 0, 'MOVE_RIGHT': 1, 'MOVE_BACKWARD': 2, 'MOVE_LEFT': 3}
TURNS = {'TURN_LEFT': 3, 'TURN_RIGHT': 1}


def mutable(world):
    return {
        'h': world['h'],
        'w': world['w'],
        'cells': [list(tuple(c) if not isinstance(c, tuple) else c for c in row) for row in world['cells']],
        'agent': [world['agent'][0], world['agent'][1], world['agent'][2], _t(world['agent'][3])],
    }


def _t(d):
    return tuple(_t(e) if isinstance(e, (list, tuple)) else e for e in d)


def frozen(world):
    return {
        'h': world['h'],
        'w': world['w'],
        'cells': tuple(tuple(_t(c) for c in row) for row in world['cells']),
        'agent': (world['agent'][0], world['agent'][1], world['agent'][2], _t(world['agent'][3])),
    }


def inside(world, y, x):
    return 0 <= y < world['h'] and 0 <= x < world['w']


def rot(heading, quarter_turns_clockwise):
    return HEADINGS[(HEADINGS.index(heading) + quarter_turns_clockwise) % 4]


def move_target(world, action):
    """cell the move action aims at (may be outside the grid); None for non-move actions"""
    if action not in MOVES:
        return None
    y, x, h, _ = world['agent']
    dy, dx = FWD[rot(h, MOVES[action])]
    return (y + dy, x + dx)


def front(world):
    y, x, h, _ = world['agent']
    dy, dx = FWD[h]
    return (y + dy, x + dx)


# ---------------------------------------------------------------- deterministic components


def move_agent(world, action):
    t = move_target(world, action)
    if t is None:
        return
    if inside(world, *t) and not blocks_movement(world['cells'][t[0]][t[1]]):
        world['agent'][0], world['agent'][1] = t


def turn_agent(world, action):
    if action in TURNS:
        world['agent'][2] = rot(world['agent'][2], TURNS[action])


def pickndrop(world, action):
    if action != 'PICK_N_DROP':
        return
    fy, fx = front(world)
    if not inside(world, fy, fx):
        return
    cell = world['cells'][fy][fx]
    held = world['agent'][3]
    empty_hand = held[0] == 'NoneGridObject'
    if holdable(cell):
        # pick (empty hand -> floor left behind) or swap
        world['cells'][fy][fx] = ('Floor',) if empty_hand else held
        world['agent'][3] = cell
    elif cell[0] == 'Floor' and not empty_hand:
        world['cells'][fy][fx] = held
        world['agent'][3] = ('NoneGridObject',)


def actuate_door(world, action):
    if action != 'ACTUATE':
        return
    fy, fx = front(world)
    if not inside(world, fy, fx):
        return
    cell = world['cells'][fy][fx]
    if cell[0] != 'Door':
        return
    status, colour = cell[1], cell[2]
    if status == 'CLOSED':
        world['cells'][fy][fx] = ('Door', 'OPEN', colour)
    elif status == 'LOCKED':
        held = world['agent'][3]
        if held[0] == 'Key' and held[1] == colour:
            world['cells'][fy][fx] = ('Door', 'OPEN', colour)


def actuate_box(world, action):
    if action != 'ACTUATE':
        return
    fy, fx = front(world)
    if not inside(world, fy, fx):
        return
    cell = world['cells'][fy][fx]
    if cell[0] == 'Box':
        world['cells'][fy][fx] = cell[1]


DETERMINISTIC = {
    'move_agent': move_agent,
    'turn_agent': turn_agent,
    'pickndrop': pickndrop,
    'actuate_door': actuate_door,
    'actuate_box': actuate_box,
}
STOCHASTIC = ('move_obstacles', 'teleport')


def step_deterministic(world, action, chain):
    """apply the deterministic built-ins of `chain` in listed order (in place)"""
    for name in chain:
        DETERMINISTIC[name](world, action)
    return world


def telepod_partners(world):
    """destinations a teleport may use for the agent's current cell ([] if not on a telepod)"""
    y, x = world['agent'][0], world['agent'][1]
    if not inside(world, y, x):
        return None
    cell = world['cells'][y][x]
    if cell[0] != 'Telepod':
        return None
    return [
        (yy, xx)
        for yy in range(world['h'])
        for xx in range(world['w'])
        if (yy, xx) != (y, x)
        and world['cells'][yy][xx][0] == 'Telepod'
        and world['cells'][yy][xx][1] == cell[1]
    ]


def neighbours4(world, y, x):
    return [(yy, xx) for yy, xx in ((y - 1, x), (y, x + 1), (y + 1, x), (y, x - 1)) if inside(world, yy, xx)]


def obstacles(world):
    return [
        (y, x)
        for y in range(world['h'])
        for x in range(world['w'])
        if world['cells'][y][x][0] == 'MovingObstacle'
    ]


# ---------------------------------------------------------------- rewards / termination


def cell_at_agent(world):
    y, x = world['agent'][0], world['agent'][1]
    return world['cells'][y][x]


def find_one(world, tname):
    hits = [
        (y, x)
        for y in range(world['h'])
        for x in range(world['w'])
        if world['cells'][y][x][0] == tname
    ]
    return hits


def manhattan(p, q):
    return abs(p[0] - q[0]) + abs(p[1] - q[1])


def euclidean(p, q):
    return math.sqrt((p[0] - q[0]) ** 2 + (p[1] - q[1]) ** 2)


DIST = {'manhattan': manhattan, 'euclidean': euclidean}


def shortest_path(world, src, dst):
    """4-connected BFS distance over cells that do not block movement (inf if unreachable).
    The source and destination cells themselves are traversable endpoints as documented
    ('assuming normal navigation dynamics')."""
    from collections import deque

    if src == dst:
        return 0.0
    seen = {dst}
    dq = deque([(dst, 0)])
    while dq:
        (y, x), d = dq.popleft()
        for yy, xx in neighbours4(world, y, x):
            if (yy, xx) in seen:
                continue
            if blocks_movement(world['cells'][yy][xx]):
                continue
            if (yy, xx) == src:
                return float(d + 1)
            seen.add((yy, xx))
            dq.append(((yy, xx), d + 1))
    return float('inf')


def reward(spec, w0, action, w1):
    """documented value of a built-in reward component. spec = {'name', params...}"""
    n = spec['name']
    g = lambda k, dflt: spec.get(k, dflt)  # noqa: E731
    if n == 'reduce_sum':
        return sum(reward(p, w0, action, w1) for p in spec['parts'])
    if n == 'reduce':
        # the generic composite: "reduction operator over the input reward functions"
        vals = [reward(p, w0, action, w1) for p in spec['parts']]
        return {'max': max, 'min': min, 'sum': sum, 'first': lambda v: v[0], 'last': lambda v: v[-1]}[spec['reduction']](vals)
    if n == 'living_reward':
        return g('reward', -1.0)
    if n == 'overlap':
        on = cell_at_agent(w1)[0] == spec['object_type']
        return g('reward_on', 1.0) if on else g('reward_off', 0.0)
    if n == 'reach_exit':
        on = cell_at_agent(w1)[0] == 'Exit'
        return g('reward_on', 1.0) if on else g('reward_off', 0.0)
    if n == 'bump_moving_obstacle':
        on = cell_at_agent(w1)[0] == 'MovingObstacle'
        return g('reward', -1.0) if on else 0.0
    if n == 'bump_into_wall':
        t = move_target(w0, action)
        hit = t is not None and inside(w0, *t) and w0['cells'][t[0]][t[1]][0] == 'Wall'
        return g('reward', -1.0) if hit else 0.0
    if n == 'proportional_to_distance':
        (obj,) = find_one(w1, spec['object_type'])
        d = DIST[g('distance_function', 'manhattan')]((w1['agent'][0], w1['agent'][1]), obj)
        return g('reward_per_unit_distance', -1.0) * d
    if n in ('getting_closer', 'getting_closer_shortest_path'):
        (o0,) = find_one(w0, spec['object_type'])
        (o1,) = find_one(w1, spec['object_type'])
        a0 = (w0['agent'][0], w0['agent'][1])
        a1 = (w1['agent'][0], w1['agent'][1])
        if n == 'getting_closer':
            f = DIST[g('distance_function', 'manhattan')]
            d0, d1 = f(a0, o0), f(a1, o1)
        else:
            d0, d1 = shortest_path(w0, a0, o0), shortest_path(w1, a1, o1)
        if d1 < d0:
            return g('reward_closer', 1.0)
        if d1 > d0:
            return g('reward_further', -1.0)
        return 0.0
    if n == 'actuate_door':
        if action != 'ACTUATE':
            return 0.0
        fy, fx = front(w0)
        if not inside(w0, fy, fx):
            return 0.0
        c0 = w0['cells'][fy][fx]
        if c0[0] != 'Door':
            return 0.0
        if not inside(w1, fy, fx):
            return 0.0
        c1 = w1['cells'][fy][fx]
        if c1[0] != 'Door':
            return 0.0
        open0, open1 = c0[1] == 'OPEN', c1[1] == 'OPEN'
        if not open0 and open1:
            return g('reward_open', 1.0)
        if open0 and not open1:
            return g('reward_close', -1.0)
        return 0.0
    if n == 'pickndrop':
        t = spec['object_type']
        has0 = w0['agent'][3][0] == t
        has1 = w1['agent'][3][0] == t
        if not has0 and has1:
            return g('reward_pick', 1.0)
        if has0 and not has1:
            return g('reward_drop', -1.0)
        return 0.0
    if n == 'reach_exit_memory':
        c = cell_at_agent(w1)
        if c[0] != 'Exit':
            return 0.0
        beacons = {
            cc[1] for row in w1['cells'] for cc in row if cc[0] == 'Beacon'
        }
        (bc,) = beacons  # precondition: all beacons share one colour
        return g('reward_good', 1.0) if c[1] == bc else g('reward_bad', -1.0)
    raise KeyError(n)


def terminal(spec, w0, action, w1):
    n = spec['name']
    if n == 'reduce_any':
        return any(terminal(p, w0, action, w1) for p in spec['parts'])
    if n == 'reduce_all':
        return all(terminal(p, w0, action, w1) for p in spec['parts'])
    if n == 'overlap':
        return cell_at_agent(w1)[0] == spec['object_type']
    if n == 'reach_exit':
        return cell_at_agent(w1)[0] == 'Exit'
    if n == 'bump_moving_obstacle':
        return cell_at_agent(w1)[0] == 'MovingObstacle'
    if n == 'bump_into_wall':
        t = move_target(w0, action)
        return t is not None and inside(w0, *t) and w0['cells'][t[0]][t[1]][0] == 'Wall'
    raise KeyError(n)


# ---------------------------------------------------------------- view geometry


def view_to_world(world, area, vy, vx):
    """world cell shown at view cell (vy, vx) for the view `area` = ((ymin,ymax),(xmin,xmax))"""
    (ymin, _), (xmin, _) = area
    y, x, h, _ = world['agent']
    fy, fx = FWD[h]
    ry, rx = FWD[rot(h, 1)]
    ay, ax = ymin + vy, xmin + vx
    return (y + (-ay) * fy + ax * ry, x + (-ay) * fx + ax * rx)


def view_anchor(area):
    (ymin, _), (xmin, _) = area
    return (-ymin, -xmin)


def view_shape(area):
    (ymin, ymax), (xmin, xmax) = area
    return (ymax - ymin + 1, xmax - xmin + 1)
