"""resetsim: parameter generators, generator (rng) modes and validators for the built-in reset functions."""
import numpy as np

from gvsim.lib import type_of, world_of
from gvsim.scripted_rng import ScriptedRng
from gvsim.sim import Raised, reset_kwargs, sut

RESETS = ['empty', 'rooms', 'dynamic_obstacles', 'keydoor', 'crossing', 'teleport', 'memory', 'memory_rooms']
NONZERO_COLORS = ['RED', 'GREEN', 'BLUE', 'YELLOW']
MODES = ['real', 'uniform', 'first', 'last', 'mixed']


def gen_shape(r, lo=1, hi=14):
    m = r.random()
    if m < 0.5:
        return [r.randint(max(lo, 3), min(hi, 9)), r.randint(max(lo, 3), min(hi, 9))]
    if m < 0.7:
        return [r.choice([5, 7, 9, 11, 13]), r.choice([5, 7, 9, 11, 13])]
    return [r.randint(lo, hi), r.randint(lo, hi)]


def gen_colors(r):
    m = r.random()
    k = r.choice([0, 1, 2, 2, 3, 3, 4])
    cols = r.sample(NONZERO_COLORS, k)
    if m < 0.12:
        cols.append('NONE')
    return cols


def gen_params(r, name, valid_bias=0.7, hi=14):
    """parameters of one reset call; with probability valid_bias drawn from the region that is
    expected to be honoured, otherwise anywhere (small shapes, too many objects, odd colours...)"""
    v = r.random() < valid_bias
    if name == 'empty':
        sh = [r.randint(4, 10), r.randint(4, 10)] if v else gen_shape(r, 1, hi)
        return {'name': name, 'shape': sh, 'random_agent': r.random() < 0.5, 'random_exit': r.random() < 0.5}
    if name == 'rooms':
        if v:
            ly, lx = r.randint(1, 3), r.randint(1, 3)
            sh = [2 * ly + 1 + r.randint(0, 6), 2 * lx + 1 + r.randint(0, 6)]
        else:
            ly, lx = r.randint(1, 4), r.randint(1, 4)
            sh = gen_shape(r, 1, hi)
        return {'name': name, 'shape': sh, 'layout': [ly, lx]}
    if name == 'dynamic_obstacles':
        sh = [r.randint(4, 9), r.randint(4, 9)] if v else gen_shape(r, 1, hi)
        cells = max(0, (sh[0] - 2) * (sh[1] - 2))
        n = r.randint(0, max(0, cells - 2)) if v else r.randint(-1, cells + 2)
        return {'name': name, 'shape': sh, 'num_obstacles': n, 'random_agent': r.random() < 0.5}
    if name == 'keydoor':
        sh = [r.randint(4, 10), r.randint(5, 10)] if v else gen_shape(r, 1, hi)
        return {'name': name, 'shape': sh}
    if name == 'crossing':
        sh = [r.choice([5, 7, 9, 11]), r.choice([5, 7, 9, 11])] if v else gen_shape(r, 1, hi)
        return {'name': name, 'shape': sh, 'num_rivers': r.randint(1, 5) if v else r.randint(-1, 8), 'object_type': r.choice(['Wall', 'Wall', 'Wall', 'MovingObstacle', 'Floor'])}
    if name == 'teleport':
        sh = [r.randint(4, 9), r.randint(4, 9)] if v else gen_shape(r, 1, hi)
        return {'name': name, 'shape': sh}
    if name == 'memory':
        sh = [r.randint(5, 10), r.choice([5, 7, 9, 11])] if v else gen_shape(r, 1, hi)
        cols = r.sample(NONZERO_COLORS, r.randint(2, 4)) if v else gen_colors(r)
        return {'name': name, 'shape': sh, 'colors': cols}
    if name == 'memory_rooms':
        if v:
            ly, lx = r.randint(1, 3), r.randint(1, 3)
            sh = [2 * ly + 1 + r.randint(1, 6), 2 * lx + 1 + r.randint(1, 6)]
            cols = r.sample(NONZERO_COLORS, r.randint(2, 4))
            ne = r.randint(2, len(cols))
            nb = r.randint(1, 3)
        else:
            ly, lx = r.randint(1, 4), r.randint(1, 4)
            sh = gen_shape(r, 1, hi)
            cols = gen_colors(r)
            ne = r.randint(0, 5)
            nb = r.randint(0, 4)
        return {'name': name, 'shape': sh, 'layout': [ly, lx], 'colors': cols, 'num_beacons': nb, 'num_exits': ne}
    raise KeyError(name)


def mk_rng(mode, seed):
    if mode == 'real':
        return np.random.default_rng(seed)
    return ScriptedRng(seed, mode)


def call_reset(params, mode, seed, via_factory):
    """call the real reset function; returns a State or Raised"""
    from gym_gridverse.envs import reset_functions as reset_fs

    kw = reset_kwargs(params)
    rng = mk_rng(mode, seed)
    if via_factory:
        f = sut(reset_fs.factory, params['name'], **kw)
        if isinstance(f, Raised):
            return f
        return sut(f, rng=rng)
    return sut(reset_fs.reset_function_registry[params['name']], **kw, rng=rng)


def find(w, tname):
    return [(y, x) for y in range(w['h']) for x in range(w['w']) if w['cells'][y][x][0] == tname]


def validate(params, w):
    """well-formedness of an initial state (world w) for the given parameters.
    returns None or (code, cause, detail)"""
    name = params['name']
    h, wd = params['shape']
    if (w['h'], w['w']) != (h, wd):
        return ('shape', f'{w["h"]}x{w["w"]}', f'requested {h}x{wd}')
    cells = w['cells']
    for y in range(h):
        for x in range(wd):
            if (y in (0, h - 1) or x in (0, wd - 1)) and cells[y][x][0] != 'Wall':
                return ('boundary_broken', cells[y][x][0], f'border cell {(y, x)} is {cells[y][x]}')
    ay, ax, hd, held = w['agent']
    if not (0 <= ay < h and 0 <= ax < wd):
        return ('agent_outside', '-', f'agent at {(ay, ax)}')
    if held[0] != 'NoneGridObject':
        return ('agent_not_empty_handed', held[0], f'holding {held}')
    under = cells[ay][ax]
    if under[0] in ('Wall', 'Box') or (under[0] == 'Door' and under[1] != 'OPEN'):
        return ('agent_on_blocking_cell', under[0], f'agent at {(ay, ax)} on {under}')
    if under[0] in ('Exit', 'MovingObstacle', 'Telepod'):
        return ('agent_on_' + under[0], _flags(params), f'agent at {(ay, ax)} on {under}')
    exits = find(w, 'Exit')
    allowed = {'Wall', 'Floor', 'Exit'}
    if name in ('empty', 'rooms', 'dynamic_obstacles', 'keydoor', 'crossing', 'teleport'):
        if len(exits) != 1:
            return ('exit_count', str(len(exits)), f'{len(exits)} exits')
    if name == 'dynamic_obstacles':
        allowed.add('MovingObstacle')
        n = len(find(w, 'MovingObstacle'))
        if n != params['num_obstacles']:
            return ('obstacle_count', f'{n}_vs_{params["num_obstacles"]}', f'{n} obstacles, requested {params["num_obstacles"]}')
    if name == 'crossing':
        allowed.add(params['object_type'])
    if name == 'keydoor':
        allowed |= {'Door', 'Key'}
        doors, keys = find(w, 'Door'), find(w, 'Key')
        if len(doors) != 1 or len(keys) != 1:
            return ('keydoor_inventory', f'{len(doors)}_doors_{len(keys)}_keys', 'needs exactly one door and one key')
        (dy, dx), (ky, kx) = doors[0], keys[0]
        d, k = cells[dy][dx], cells[ky][kx]
        if d[1] != 'LOCKED':
            return ('door_not_locked', d[1], str(d))
        if d[2] != k[1]:
            return ('key_colour_mismatch', f'{d[2]}_vs_{k[1]}', 'key does not match the door')
        for y in range(1, h - 1):
            if y != dy and cells[y][dx][0] != 'Wall':
                return ('dividing_wall_broken', cells[y][dx][0], f'column {dx} has {cells[y][dx]} at row {y}')
        if not (kx < dx and ax < dx):
            return ('key_or_agent_beyond_wall', f'key_{kx}_agent_{ax}_wall_{dx}', 'key and agent must be on the same (left) side of the wall')
        if not exits[0][1] > dx:
            return ('exit_not_beyond_wall', '-', f'exit {exits[0]} wall column {dx}')
    if name == 'teleport':
        allowed.add('Telepod')
        tp = find(w, 'Telepod')
        if len(tp) != 2:
            return ('telepod_count', str(len(tp)), f'{len(tp)} telepods')
        if cells[tp[0][0]][tp[0][1]][1] != cells[tp[1][0]][tp[1][1]][1]:
            return ('telepod_colours_differ', '-', 'the two telepods have different colours')
    if name in ('memory', 'memory_rooms'):
        allowed.add('Beacon')
        n_ex = 2 if name == 'memory' else params['num_exits']
        if len(exits) != n_ex:
            return ('exit_count', f'{len(exits)}_vs_{n_ex}', f'{len(exits)} exits, advertised {n_ex}')
        ecols = [cells[y][x][1] for (y, x) in exits]
        if len(set(ecols)) != len(ecols):
            return ('exit_colours_not_distinct', '-', str(ecols))
        beacons = find(w, 'Beacon')
        if name == 'memory_rooms' and len(beacons) != params['num_beacons']:
            return ('beacon_count', f'{len(beacons)}_vs_{params["num_beacons"]}', f'{len(beacons)} beacons')
        if not beacons:
            return ('beacon_count', '0', 'no beacon')
        bcols = {cells[y][x][1] for (y, x) in beacons}
        if len(bcols) != 1:
            return ('beacon_colours_differ', '-', str(sorted(bcols)))
        if ecols.count(next(iter(bcols))) != 1:
            return ('beacon_matches_no_exit', '-', f'beacon colour {bcols} exits {ecols}')
        if any(c not in params['colors'] for c in ecols):
            return ('colour_not_requested', '-', f'exit colours {ecols} requested {params["colors"]}')
    for y in range(h):
        for x in range(wd):
            if cells[y][x][0] not in allowed:
                return ('unexpected_object', cells[y][x][0], f'{cells[y][x]} at {(y, x)}')
    return None


def _flags(p):
    return '_'.join(f'{k}={p[k]}' for k in ('random_agent', 'random_exit') if k in p) or '-'
