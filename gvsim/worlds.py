"""Swarm generators: free-form worlds, compositions of built-in components, declared spaces.

All generators take a random.Random stream and return JSON data; nothing here touches the
library.  Worlds need no wall boundary; the agent may stand anywhere, also on an edge facing
outward, holding anything.
"""
from gvsim.lib import ACTIONS, BUILTIN_TYPES, COLORS, HEADINGS, STATUSES

DET_TRANSITIONS = ['move_agent', 'turn_agent', 'pickndrop', 'actuate_door', 'actuate_box']
ALL_TRANSITIONS = DET_TRANSITIONS + ['move_obstacles', 'teleport']
SHIPPED_ACTIONS6 = ACTIONS[:6]
UNIQUE_OK = ['Exit', 'Beacon', 'Telepod', 'Door', 'MovingObstacle', 'Wall']


def gen_seed(r):
    """an environment seed: mostly arbitrary, sometimes a boundary value (0 is falsy; 2**32 does not fit 32 bits)"""
    if r.random() < 0.12:
        return r.choice([0, 0, 1, 2**31 - 1, 2**32 - 1, 2**32, 2**63 - 1])
    return r.randrange(2**31)


def gen_obj(r, tname, colors, depth=0, inner=None):
    """descriptor of a random object of type tname"""
    c = lambda: r.choice(colors)  # noqa: E731
    if tname in ('Floor', 'Wall', 'MovingObstacle'):
        return [tname]
    if tname == 'Exit':
        return ['Exit', c()]
    if tname == 'Door':
        return ['Door', r.choice(STATUSES), c()]
    if tname in ('Key', 'Telepod', 'Beacon'):
        return [tname, c()]
    if tname == 'Box':
        allowed = inner if inner is not None else BUILTIN_TYPES
        cand = [t for t in allowed if t != 'Box' or depth < 1]
        return ['Box', gen_obj(r, r.choice(cand), colors, depth + 1, inner)]
    raise ValueError(tname)


def gen_world(
    r,
    h,
    w,
    types,
    colors,
    *,
    unique=None,
    beacon_colour=None,
    density=None,
    edge_bias=0.35,
    valid_start=None,
    held_types=None,
    box_inner=None,
    forbid_in_box=(),
):
    """free-form world over `types` (type names) and `colors`.

    unique: a type that must occur exactly once on the grid and never inside a Box.
    beacon_colour: if set, at least one Beacon and every Beacon has that colour.
    """
    density = density if density is not None else r.choice([0.15, 0.3, 0.45, 0.6])
    placeable = [t for t in types if t != 'Floor' and t != unique]
    inner = [t for t in (box_inner if box_inner is not None else types) if t != unique and t not in forbid_in_box]
    if beacon_colour is not None:
        inner = [t for t in inner if t != 'Beacon']
    if not inner:
        inner = ['Floor']

    def obj(t):
        d = gen_obj(r, t, colors, inner=inner)
        if beacon_colour is not None and d[0] == 'Beacon':
            d[1] = beacon_colour
        return d

    cells = [[['Floor'] for _ in range(w)] for _ in range(h)]
    if placeable:
        for y in range(h):
            for x in range(w):
                if r.random() < density:
                    cells[y][x] = obj(r.choice(placeable))
    free = [(y, x) for y in range(h) for x in range(w)]
    if unique is not None:
        y, x = r.choice(free)
        cells[y][x] = obj(unique)
    # agent
    if r.random() < edge_bias:
        side = r.choice('NESW')
        if side == 'N':
            ay, ax, hd = 0, r.randrange(w), 'FORWARD'
        elif side == 'S':
            ay, ax, hd = h - 1, r.randrange(w), 'BACKWARD'
        elif side == 'W':
            ay, ax, hd = r.randrange(h), 0, 'LEFT'
        else:
            ay, ax, hd = r.randrange(h), w - 1, 'RIGHT'
        if r.random() < 0.3:
            hd = r.choice(HEADINGS)
    else:
        ay, ax, hd = r.randrange(h), r.randrange(w), r.choice(HEADINGS)
    want_valid = valid_start if valid_start is not None else (r.random() < 0.8)
    if want_valid:
        c = cells[ay][ax]
        if c[0] in ('Wall', 'Box') or (c[0] == 'Door' and c[1] != 'OPEN'):
            if c[0] != unique:
                cells[ay][ax] = ['Floor']
            else:
                # move the agent to some non-blocking cell if one exists
                ok = [
                    (y, x)
                    for y in range(h)
                    for x in range(w)
                    if cells[y][x][0] not in ('Wall', 'Box') and not (cells[y][x][0] == 'Door' and cells[y][x][1] != 'OPEN')
                ]
                if ok:
                    ay, ax = r.choice(ok)
    # held item
    held = ['NoneGridObject']
    ht = held_types if held_types is not None else [t for t in types if t not in ('Floor',) and t != unique]
    if beacon_colour is not None:
        ht = [t for t in ht if t != 'Beacon']
    if ht and r.random() < 0.45:
        pick = 'Key' if ('Key' in ht and r.random() < 0.6) else r.choice(ht)
        held = obj(pick)
    # bias: something interesting right in front of the agent
    dy, dx = {'FORWARD': (-1, 0), 'RIGHT': (0, 1), 'BACKWARD': (1, 0), 'LEFT': (0, -1)}[hd]
    fy, fx = ay + dy, ax + dx
    if 0 <= fy < h and 0 <= fx < w and placeable and r.random() < 0.5 and cells[fy][fx][0] != unique:
        cells[fy][fx] = obj(r.choice(placeable)) if r.random() < 0.8 else ['Floor']
    if beacon_colour is not None and not any(c[0] == 'Beacon' for row in cells for c in row):
        cand = [(y, x) for (y, x) in free if cells[y][x][0] != unique]
        if cand:
            y, x = r.choice(cand)
            cells[y][x] = ['Beacon', beacon_colour]
    return {'h': h, 'w': w, 'cells': cells, 'agent': [ay, ax, hd, held]}


def world_is_valid_start(world):
    y, x = world['agent'][0], world['agent'][1]
    if not (0 <= y < world['h'] and 0 <= x < world['w']):
        return False
    c = world['cells'][y][x]
    return not (c[0] in ('Wall', 'Box') or (c[0] == 'Door' and c[1] != 'OPEN'))


def precond_ok(unique, beacon, world):
    if unique is not None and sum(1 for row in world['cells'] for c in row if c[0] == unique) != 1:
        return False
    if beacon and len({c[1] for row in world['cells'] for c in row if c[0] == 'Beacon'}) != 1:
        return False
    return True


def near_duplicate(r, world, types, colors, unique=None, beacon=False):
    """a copy of `world` that differs in exactly one attribute which the library's own equality may or may
    not see: a box's content, a door's status, one object's colour, the held item, the heading.
    (States that are equal "up to one hidden detail" are what caches keyed on too little confuse.)"""
    import copy

    w = copy.deepcopy(world)
    cells = [(y, x) for y in range(w['h']) for x in range(w['w'])]
    boxes = [p for p in cells if w['cells'][p[0]][p[1]][0] == 'Box']
    doors = [p for p in cells if w['cells'][p[0]][p[1]][0] == 'Door' and unique != 'Door']
    coloured = [p for p in cells if w['cells'][p[0]][p[1]][0] in ('Key', 'Exit', 'Telepod') and len(colors) > 1]
    kinds = (['box'] * 4 if boxes else []) + (['door'] * 2 if doors else []) + (['colour'] if coloured else []) + ['held', 'heading']
    k = r.choice(kinds)
    if k == 'box':
        y, x = r.choice(boxes)
        inner = [t for t in types if t not in ('Box', unique) and not (beacon and t == 'Beacon')] or ['Floor']
        old = w['cells'][y][x][1]
        for _ in range(8):
            new = gen_obj(r, r.choice(inner), colors)
            if list(new) != list(old):
                w['cells'][y][x] = ['Box', new]
                break
    elif k == 'door':
        y, x = r.choice(doors)
        d = w['cells'][y][x]
        w['cells'][y][x] = ['Door', r.choice([st for st in STATUSES if st != d[1]]), d[2]]
    elif k == 'colour':
        y, x = r.choice(coloured)
        d = w['cells'][y][x]
        w['cells'][y][x] = [d[0], r.choice([c for c in colors if c != d[1]])]
    elif k == 'held':
        ht = [t for t in types if t not in ('Floor', unique) and not (beacon and t == 'Beacon')]
        w['agent'][3] = ['NoneGridObject'] if w['agent'][3][0] != 'NoneGridObject' or not ht else gen_obj(r, r.choice(ht), colors, inner=[t for t in types if t not in ('Box', unique, 'Beacon')] or ['Floor'])
    else:
        w['agent'][2] = r.choice([h for h in HEADINGS if h != w['agent'][2]])
    return w


def carve_maze(r, world, unique=None, keep=()):
    """turn the world's grid into a perfect maze (walls with winding one-cell corridors) in place, keeping the
    agent's cell, the unique object and the cells in `keep`; long shortest paths are the point."""
    h, w = world['h'], world['w']
    cells = world['cells']
    protected = {(world['agent'][0], world['agent'][1])} | set(keep)
    for y in range(h):
        for x in range(w):
            if cells[y][x][0] == unique or (y, x) in protected:
                continue
            cells[y][x] = ['Wall']
    nodes = [(y, x) for y in range(0, h, 2) for x in range(0, w, 2)]
    if not nodes:
        return
    start = r.choice(nodes)
    seen = {start}
    stack = [start]
    while stack:
        y, x = stack[-1]
        nb = [(y + dy, x + dx) for dy, dx in ((-2, 0), (2, 0), (0, -2), (0, 2)) if 0 <= y + dy < h and 0 <= x + dx < w and (y + dy, x + dx) not in seen]
        if not nb:
            stack.pop()
            continue
        ny, nx = r.choice(nb)
        for (cy, cx) in ((ny, nx), ((y + ny) // 2, (x + nx) // 2), (y, x)):
            if cells[cy][cx][0] == 'Wall':
                cells[cy][cx] = ['Floor']
        seen.add((ny, nx))
        stack.append((ny, nx))


def gen_types(r, must=()):
    n = r.randint(2, len(BUILTIN_TYPES))
    ts = set(r.sample(BUILTIN_TYPES, n)) | {'Floor'} | set(must)
    return [t for t in BUILTIN_TYPES if t in ts]


def gen_colors(r):
    n = r.randint(1, 4)
    cs = set(r.sample(COLORS[1:], n))
    if r.random() < 0.8:
        cs.add('NONE')
    return [c for c in COLORS if c in cs]


def gen_chain(r, allow_stochastic=True):
    mode = r.random()
    if mode < 0.2:
        return ['move_agent', 'turn_agent', 'actuate_door', 'pickndrop']  # shipped key-door order
    if mode < 0.3:
        return ['move_agent', 'turn_agent'] + (['move_obstacles'] if allow_stochastic else [])
    pool = ALL_TRANSITIONS if allow_stochastic else DET_TRANSITIONS
    k = r.randint(1, len(pool))
    chain = r.sample(pool, k)
    if r.random() < 0.5:
        for must in ('move_agent', 'turn_agent'):
            if must not in chain:
                chain.append(must)
    return chain


def rfloat(r):
    return r.choice([0.0, 1.0, -1.0, 5.0, -0.05, 0.2, round(r.uniform(-3, 3), 3)])


def gen_reward(r, types, unique, beacon, depth=0):
    names = ['living_reward', 'overlap', 'reach_exit', 'bump_moving_obstacle', 'bump_into_wall', 'actuate_door', 'pickndrop']
    if unique is not None:
        names += ['proportional_to_distance', 'getting_closer', 'getting_closer_shortest_path'] * 2
    if beacon:
        names += ['reach_exit_memory'] * 2
    if depth < 2:
        names += ['reduce_sum']
    n = r.choice(names)
    if n == 'reduce_sum':
        return {'name': n, 'parts': [gen_reward(r, types, unique, beacon, depth + 1) for _ in range(r.randint(1, 3))]}
    s = {'name': n}
    opt = lambda: r.random() < 0.7  # noqa: E731
    if n == 'living_reward':
        if opt():
            s['reward'] = rfloat(r)
    elif n == 'overlap':
        s['object_type'] = r.choice(types)
        if opt():
            s['reward_on'] = rfloat(r)
        if opt():
            s['reward_off'] = rfloat(r)
    elif n == 'reach_exit':
        if opt():
            s['reward_on'] = rfloat(r)
        if opt():
            s['reward_off'] = rfloat(r)
    elif n in ('bump_moving_obstacle', 'bump_into_wall'):
        if opt():
            s['reward'] = rfloat(r)
    elif n == 'proportional_to_distance':
        s['object_type'] = unique
        if opt():
            s['distance_function'] = r.choice(['manhattan', 'euclidean'])
        if opt():
            s['reward_per_unit_distance'] = rfloat(r)
    elif n == 'getting_closer':
        s['object_type'] = unique
        if opt():
            s['distance_function'] = r.choice(['manhattan', 'euclidean'])
        if opt():
            s['reward_closer'] = rfloat(r)
        if opt():
            s['reward_further'] = rfloat(r)
    elif n == 'getting_closer_shortest_path':
        s['object_type'] = unique
        if opt():
            s['reward_closer'] = rfloat(r)
        if opt():
            s['reward_further'] = rfloat(r)
    elif n == 'actuate_door':
        if opt():
            s['reward_open'] = rfloat(r)
        if opt():
            s['reward_close'] = rfloat(r)
    elif n == 'pickndrop':
        s['object_type'] = r.choice([t for t in types if t != 'Floor'] or ['Key'])
        if opt():
            s['reward_pick'] = rfloat(r)
        if opt():
            s['reward_drop'] = rfloat(r)
    elif n == 'reach_exit_memory':
        if opt():
            s['reward_good'] = rfloat(r)
        if opt():
            s['reward_bad'] = rfloat(r)
    return s


def gen_term(r, types, depth=0):
    names = ['reach_exit', 'bump_moving_obstacle', 'bump_into_wall', 'overlap']
    if depth < 2:
        names += ['reduce_any', 'reduce_all']
    n = r.choice(names)
    if n in ('reduce_any', 'reduce_all'):
        return {'name': n, 'parts': [gen_term(r, types, depth + 1) for _ in range(r.randint(1, 3))]}
    s = {'name': n}
    if n == 'overlap':
        s['object_type'] = r.choice(types)
    return s


def gen_obs(r, *, odd_width=True, deterministic_only=False, max_extent=7):
    names = ['fully_transparent', 'partially_occluded', 'raytracing']
    if not deterministic_only:
        names.append('stochastic_raytracing')
    n = r.choice(names)
    if r.random() < 0.3:
        area = [[-6, 0], [-3, 3]]  # the shipped view
    else:
        vh = r.randint(1, max_extent)
        vw = r.randint(1, max_extent)
        if odd_width and vw % 2 == 0:
            vw += 1 if vw < max_extent else -1
        if n == 'partially_occluded' or r.random() < 0.5:
            ymax = 0
        else:
            ymax = r.randint(0, vh - 1)
        ymin = ymax - vh + 1
        xmin = -r.randint(0, vw - 1)
        if r.random() < 0.5:
            xmin = -(vw // 2)
        area = [[ymin, ymax], [xmin, xmin + vw - 1]]
    return {'name': n, 'area': area}


def aligned_pose(area, heading):
    """(h, w, y, x): grid shape and agent cell for which the view `area` covers the grid exactly"""
    (ymin, ymax), (xmin, xmax) = area
    vh, vw = ymax - ymin + 1, xmax - xmin + 1
    if heading == 'FORWARD':
        return vh, vw, -ymin, -xmin
    if heading == 'BACKWARD':
        return vh, vw, ymax, xmax
    if heading == 'RIGHT':
        return vw, vh, -xmin, ymax
    return vw, vh, xmax, -ymin


def gen_actions(r):
    m = r.random()
    if m < 0.5:
        return list(ACTIONS)
    if m < 0.7:
        return list(SHIPPED_ACTIONS6)
    k = r.randint(1, 8)
    return r.sample(ACTIONS, k)


def gen_hand_client(r, *, hmax=8, wmax=8, allow_stochastic=True, deterministic_obs=False, n_pool=3, min_hw=1, env_seed=None, valid_start=None):
    """a random composition of built-in components with member worlds"""
    types = gen_types(r)
    colors = gen_colors(r)  # the declared list may omit NONE: the spaces add it themselves
    unique = r.choice([t for t in UNIQUE_OK if t in types] or [None]) if r.random() < 0.55 else None
    beacon = ('Beacon' in types) and unique != 'Beacon' and r.random() < 0.5
    beacon_colour = r.choice([c for c in colors if c != 'NONE'] or ['NONE']) if beacon else None
    chain = gen_chain(r, allow_stochastic)
    if unique == 'MovingObstacle' and 'move_obstacles' in chain and r.random() < 0.5:
        pass  # a single obstacle may move; count stays one
    h = r.randint(min_hw, hmax)
    w = r.randint(min_hw, wmax)
    strip = r.random() < 0.06
    if strip:
        # size knob: a long strip (grids much wider / taller than any shipped one)
        long, short = r.randint(16, 24), r.randint(max(1, min_hw), 3)
        h, w = (short, long) if r.random() < 0.5 else (long, short)
    wkw = dict(unique=unique, beacon_colour=beacon_colour, valid_start=valid_start)
    obs = gen_obs(r, deterministic_only=deterministic_obs)
    if obs['name'] == 'partially_occluded' and obs['area'][0][1] != 0:
        obs['area'][0] = [obs['area'][0][0] - obs['area'][0][1], 0]
    align = r.random() < 0.12 and not strip
    if align:
        # boundary condition: the view covers the grid exactly (for one pose)
        ahd = r.choice(HEADINGS)
        ah, aw, ay, ax = aligned_pose(obs['area'], ahd)
        if ah >= min_hw and aw >= min_hw and 0 <= ay < ah and 0 <= ax < aw:
            h, w = ah, aw
        else:
            align = False

    maze = (not strip) and 'Wall' in types and unique != 'Wall' and r.random() < 0.07
    if maze:
        h, w = r.choice([5, 7, 9]), r.choice([5, 7, 9])
        align = False

    def mk():
        wv = gen_world(r, h, w, types, colors, **wkw)
        if maze:
            carve_maze(r, wv, unique)
            return wv
        if align and r.random() < 0.7:
            c = wv['cells'][ay][ax]
            blocking = c[0] in ('Wall', 'Box') or (c[0] == 'Door' and c[1] != 'OPEN')
            if blocking and c[0] == unique and valid_start:
                return wv
            wv['agent'][0], wv['agent'][1], wv['agent'][2] = ay, ax, ahd
            if blocking and c[0] != unique and (valid_start is None or valid_start):
                wv['cells'][ay][ax] = ['Floor']
        return wv

    world = mk()
    pool = [mk() for _ in range(r.randint(0, n_pool))]
    if not all(precond_ok(unique, beacon, wv) for wv in [world] + pool):
        # too small to host both the unique object and a beacon: drop the beacon precondition
        beacon, wkw['beacon_colour'] = False, None
        world = mk()
        pool = [mk() for _ in pool]
        if not all(precond_ok(unique, beacon, wv) for wv in [world] + pool):
            unique, wkw['unique'] = None, None
            world = mk()
            pool = [mk() for _ in pool]
    near_dup = bool(n_pool) and r.random() < 0.35
    if near_dup:
        # near-duplicate states: equal up to one detail (box content, door status, colour, held item, heading)
        for src in r.sample([world] + pool, min(2, 1 + len(pool))):
            pool.append(near_duplicate(r, src, types, colors, unique, beacon))
    rewards = [gen_reward(r, types, unique, beacon) for _ in range(r.randint(1, 3))]
    spec = {
        'kind': 'hand',
        'world': world,
        'pool_worlds': pool,
        'chain': chain,
        'rewards': rewards,
        'term': gen_term(r, types),
        'obs': obs,
        'actions': gen_actions(r),
        'types': types,
        'colors': colors,
        'unique': unique,
        'beacon': beacon,
        'via_factory': r.random() < 0.5,
        'env_seed': env_seed if env_seed is not None else gen_seed(r),
        'strip': strip,
    }
    if len(chain) >= 2 and r.random() < 0.15:
        i = r.randrange(len(chain) - 1)
        j = r.randint(i + 1, len(chain))
        spec['nest'] = [i, j]
        if r.random() < 0.5:
            # a second nested chain (before or after the first)
            if i >= 1:
                spec['nest2'] = [r.randrange(i), i]
            elif j < len(chain):
                spec['nest2'] = [j, r.randint(j + 1, len(chain))]
    if r.random() < 0.25:
        spec['int_actions'] = True
    spec['knobs'] = [k for k, on in (('view_covers_grid', align), ('long_strip', strip), ('near_duplicate_states', near_dup), ('nested_chain', 'nest' in spec), ('two_nested_chains', 'nest2' in spec), ('maze', maze), ('actions_as_indices', spec.get('int_actions', False))) if on]
    return spec


def gen_reset_client(r, name=None, *, random_composition=True, stochastic_obs=True):
    """hand-assembled client around a built-in (random) reset function, with a random composition whose
    documented preconditions the reset function guarantees"""
    name = name or r.choice(['empty', 'rooms', 'dynamic_obstacles', 'keydoor', 'crossing', 'teleport', 'memory', 'memory_rooms'])
    cols = r.sample(['RED', 'GREEN', 'BLUE', 'YELLOW'], r.randint(2, 4))
    reset = {
        'empty': lambda: {'name': 'empty', 'shape': [r.randint(4, 7), r.randint(4, 7)], 'random_agent': r.random() < 0.7, 'random_exit': r.random() < 0.3},
        'rooms': lambda: {'name': 'rooms', 'shape': [r.choice([5, 7, 9]), r.choice([5, 7, 9])], 'layout': [r.choice([1, 2]), 2]},
        'dynamic_obstacles': lambda: {'name': 'dynamic_obstacles', 'shape': [r.randint(5, 7), r.randint(5, 7)], 'num_obstacles': r.randint(1, 4), 'random_agent': r.random() < 0.5},
        'keydoor': lambda: {'name': 'keydoor', 'shape': [r.randint(4, 8), r.randint(5, 8)]},
        'crossing': lambda: {'name': 'crossing', 'shape': [r.choice([5, 7]), r.choice([5, 7, 9])], 'num_rivers': r.randint(1, 3), 'object_type': 'Wall'},
        'teleport': lambda: {'name': 'teleport', 'shape': [r.randint(4, 7), r.randint(4, 7)]},
        'memory': lambda: {'name': 'memory', 'shape': [r.randint(5, 8), r.choice([5, 7, 9])], 'colors': cols},
        'memory_rooms': lambda: {'name': 'memory_rooms', 'shape': [r.choice([7, 9]), r.choice([7, 9])], 'layout': [2, 2], 'colors': cols, 'num_beacons': r.randint(1, 2), 'num_exits': 2},
    }[name]()
    base = ['move_agent', 'turn_agent'] + {'dynamic_obstacles': ['move_obstacles'], 'teleport': ['teleport'], 'keydoor': ['actuate_door', 'pickndrop']}.get(name, [])
    memory = name.startswith('memory')
    if random_composition:
        chain = gen_chain(r) if r.random() < 0.5 else base + ([r.choice(ALL_TRANSITIONS)] if r.random() < 0.3 else [])
        chain = list(dict.fromkeys(chain))
        unique = None if memory else 'Exit'
        rewards = [gen_reward(r, list(BUILTIN_TYPES), unique, memory) for _ in range(r.randint(1, 3))]
        term = gen_term(r, list(BUILTIN_TYPES))
        obs = gen_obs(r, deterministic_only=not stochastic_obs)
        if obs['name'] == 'partially_occluded' and obs['area'][0][1] != 0:
            obs['area'][0] = [obs['area'][0][0] - obs['area'][0][1], 0]
        actions = gen_actions(r)
    else:
        chain = base + (['move_obstacles'] if r.random() < 0.3 and 'move_obstacles' not in base else [])
        unique = None
        rewards = [{'name': 'living_reward'}, {'name': 'reach_exit'}]
        term = {'name': 'reach_exit'}
        obs = {'name': r.choice(['stochastic_raytracing', 'stochastic_raytracing', 'raytracing', 'partially_occluded']), 'area': [[-4, 0], [-2, 2]]}
        actions = list(ACTIONS)
    return {
        'kind': 'hand', 'reset': reset, 'world': None, 'pool_worlds': [], 'chain': chain, 'rewards': rewards, 'term': term, 'obs': obs,
        'actions': actions, 'types': list(BUILTIN_TYPES), 'colors': ['NONE', 'RED', 'GREEN', 'BLUE', 'YELLOW'],
        'unique': unique, 'beacon': memory, 'via_factory': r.random() < 0.5, 'env_seed': gen_seed(r),
        'knobs': ['composition_around_builtin_reset'] if random_composition else [],
    }


SHIPPED = [
    'gv_crossing.5x5.yaml',
    'gv_crossing.7x7.yaml',
    'gv_dynamic_obstacles.5x5.yaml',
    'gv_dynamic_obstacles.7x7.yaml',
    'gv_empty.4x4.yaml',
    'gv_empty.8x8.yaml',
    'gv_four_rooms.7x7.yaml',
    'gv_four_rooms.9x9.yaml',
    'gv_keydoor.5x5.yaml',
    'gv_keydoor.7x7.yaml',
    'gv_keydoor.9x9.yaml',
    'gv_memory.5x5.yaml',
    'gv_memory.9x9.yaml',
    'gv_memory_four_rooms.7x7.yaml',
    'gv_memory_four_rooms.9x9.yaml',
    'gv_memory_nine_rooms.10x10.yaml',
    'gv_memory_nine_rooms.13x13.yaml',
    'gv_nine_rooms.10x10.yaml',
    'gv_nine_rooms.13x13.yaml',
    'gv_teleport.5x5.yaml',
    'gv_teleport.7x7.yaml',
]


def gen_yaml_client(r, names=None, env_seed=None):
    spec = {
        'kind': 'yaml',
        'yaml': r.choice(names or SHIPPED),
        'env_seed': env_seed if env_seed is not None else gen_seed(r),
    }
    if r.random() < 0.2:
        # a legal edit of the shipped data: one reward entry listed twice (second copy with scaled values);
        # the environment reward is the sum of ALL listed parts
        spec['yaml_edit'] = {'dup_reward': [r.randrange(8), r.choice([0.5, -1.0, 2.0, 1.0])]}
    return spec


def reorder_yaml_actions(spec):
    """another legal edit of a YAML-built client: the configured action list in another order, actions then given as
    indices into it.  Decided from the already drawn environment seed (no extra draw: the streams of every other
    generator stay as they were) for one client in five."""
    if spec.get('kind') == 'yaml' and spec['env_seed'] % 5 == 0:
        spec.setdefault('yaml_edit', {})['reorder_actions'] = spec['env_seed'] // 5
        spec['int_actions'] = True
    return spec


def simplify_world(world):
    """candidate simplifications of a free-form world (for minimisation)"""
    h, w = world['h'], world['w']
    ay, ax = world['agent'][0], world['agent'][1]
    # replace one non-floor cell by floor
    for y in range(h):
        for x in range(w):
            if world['cells'][y][x][0] != 'Floor':
                cells = [list(row) for row in world['cells']]
                cells[y][x] = ['Floor']
                yield dict(world, cells=cells)
    # crop a border row / column that does not contain the agent
    if h > 1 and ay != 0:
        yield dict(world, h=h - 1, cells=[list(r) for r in world['cells'][1:]], agent=[ay - 1, ax] + list(world['agent'][2:]))
    if h > 1 and ay != h - 1:
        yield dict(world, h=h - 1, cells=[list(r) for r in world['cells'][:-1]])
    if w > 1 and ax != 0:
        yield dict(world, w=w - 1, cells=[list(r[1:]) for r in world['cells']], agent=[ay, ax - 1] + list(world['agent'][2:]))
    if w > 1 and ax != w - 1:
        yield dict(world, w=w - 1, cells=[list(r[:-1]) for r in world['cells']])
    if world['agent'][3][0] != 'NoneGridObject':
        yield dict(world, agent=list(world['agent'][:3]) + [['NoneGridObject']])
