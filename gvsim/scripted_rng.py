"""ScriptedRng - a stand-in for numpy.random.Generator whose every outcome the simulator owns.

Implements the sampling methods the library calls (choice, integers, random, shuffle).  Each
outcome comes from a *decider*:
  mode 'uniform'  - drawn from a random.Random the simulator seeded,
  mode 'first' / 'last' - extreme outcomes (first/last index, 0.0 / 1-2**-53, identity /
                   reversed permutation),
  mode 'mixed'    - per draw one of the above, chosen by the simulator's stream,
  script          - a recorded list of outcomes (replay / outcome forcing); when the script
                   is exhausted the mode decides.
Every draw is logged as (method, domain, outcome).  Failure behaviour of the real Generator
that the library relies on is reproduced (ValueError for choice(0), for a sample larger than
the population without replacement, for negative sizes, for integers(low >= high)); this is
checked against the real Generator by `differential_selftest`.
Any other attribute is delegated to a real, seeded Generator and logged as 'unscripted'.
"""
import random

import numpy as np

ALMOST_ONE = 1.0 - 2.0**-53


class ScriptedRng:
    def __init__(self, seed=0, mode='uniform', script=None):
        self._r = random.Random(seed)
        self._mode = mode
        self._script = list(script) if script else []
        self._si = 0
        self.log = []
        self._real = np.random.default_rng(seed)

    # -- deciders -----------------------------------------------------------------
    def _m(self):
        if self._mode == 'mixed':
            return self._r.choice(['uniform', 'uniform', 'first', 'last'])
        return self._mode

    def _scripted(self):
        if self._si < len(self._script):
            v = self._script[self._si]
            self._si += 1
            return True, v
        return False, None

    def _index(self, n):
        ok, v = self._scripted()
        if ok and isinstance(v, int) and 0 <= v < n:
            return v
        m = self._m()
        if m == 'first':
            return 0
        if m == 'last':
            return n - 1
        return self._r.randrange(n)

    def _unit(self):
        ok, v = self._scripted()
        if ok and isinstance(v, float) and 0.0 <= v < 1.0:
            return v
        m = self._m()
        if m == 'first':
            return 0.0
        if m == 'last':
            return ALMOST_ONE
        return self._r.random()

    # -- Generator API used by the library ----------------------------------------
    def choice(self, a, size=None, replace=True, p=None, axis=0, shuffle=True):
        if p is not None:
            return self.__getattr__('choice')(a, size=size, replace=replace, p=p)
        if isinstance(a, (int, np.integer)):
            n, seq = int(a), None
            if n <= 0 and size is None:
                raise ValueError('a must be a positive integer unless no samples are taken')
        else:
            seq = list(a)
            n = len(seq)
            if n == 0 and size is None:
                raise ValueError('a cannot be empty unless no samples are taken')
        if size is None:
            i = self._index(n)
            self.log.append(('choice', n, i))
            return i if seq is None else seq[i]
        k = int(size)
        if k < 0:
            raise ValueError('negative dimensions are not allowed')
        if n <= 0 and k > 0:
            raise ValueError('a must be a positive integer unless no samples are taken')
        if not replace:
            if k > n:
                raise ValueError(
                    'Cannot take a larger sample than population when replace is False'
                )
            pool = list(range(n))
            out = []
            for _ in range(k):
                j = self._index(len(pool))
                out.append(pool.pop(j))
        else:
            out = [self._index(n) for _ in range(k)]
        self.log.append(('choices', (n, k, bool(replace)), tuple(out)))
        if seq is None:
            return np.array(out, dtype=np.int64)
        arr = np.empty(k, dtype=object)
        for i, j in enumerate(out):
            arr[i] = seq[j]
        return arr

    def integers(self, low, high=None, size=None, dtype=np.int64, endpoint=False):
        if size is not None:
            return self.__getattr__('integers')(low, high, size=size, dtype=dtype, endpoint=endpoint)
        if high is None:
            low, high = 0, low
        low, high = int(low), int(high)
        hi = high + 1 if endpoint else high
        if low >= hi:
            raise ValueError('low >= high' if not endpoint else 'low > high')
        i = self._index(hi - low)
        self.log.append(('integers', (low, hi), low + i))
        return np.int64(low + i)

    def random(self, size=None, dtype=np.float64, out=None):
        if size is None:
            v = self._unit()
            self.log.append(('random', None, v))
            return v
        shape = (size,) if isinstance(size, (int, np.integer)) else tuple(size)
        n = int(np.prod(shape)) if shape else 1
        vals = [self._unit() for _ in range(n)]
        self.log.append(('random', shape, tuple(vals)))
        return np.array(vals, dtype=np.float64).reshape(shape)

    def shuffle(self, x, axis=0):
        n = len(x)
        ok, v = self._scripted()
        if ok and isinstance(v, (list, tuple)) and sorted(v) == list(range(n)):
            perm = list(v)
        else:
            m = self._m()
            if m == 'first':
                perm = list(range(n))
            elif m == 'last':
                perm = list(range(n))[::-1]
            else:
                perm = list(range(n))
                self._r.shuffle(perm)
        self.log.append(('shuffle', n, tuple(perm)))
        x[:] = [x[i] for i in perm]

    # -- everything else: deterministic real generator, logged -----------------------
    def __getattr__(self, name):
        if name.startswith('__'):
            raise AttributeError(name)
        attr = getattr(self._real, name)
        self.log.append(('unscripted', name, None))
        return attr

    def outcomes(self):
        """the outcome list of everything drawn so far (usable as a script)"""
        out = []
        for m, d, o in self.log:
            if m == 'choice' or m == 'integers':
                out.append(o if m == 'choice' else o - d[0])
            elif m == 'choices':
                out.extend(None for _ in o)  # not replayable index-by-index
            elif m == 'random':
                out.extend(o if isinstance(o, tuple) else [o])
            elif m == 'shuffle':
                out.append(list(o))
        return out


def differential_selftest():
    """the failure behaviour reproduced by the stub equals the real Generator's"""
    real = np.random.default_rng(0)
    stub = ScriptedRng(0)
    probes = [
        lambda g: g.choice(0),
        lambda g: g.choice(3, size=5, replace=False),
        lambda g: g.choice(3, size=-1, replace=False),
        lambda g: g.choice(0, size=1, replace=False),
        lambda g: g.choice([], size=1, replace=False),
        lambda g: g.integers(3, 3),
        lambda g: g.integers(4, 3, endpoint=True),
        lambda g: g.choice(0, size=0, replace=False),
        lambda g: g.choice(5, size=5, replace=False),
        lambda g: g.integers(3, 3, endpoint=True),
        lambda g: g.choice(4),
        lambda g: g.random((2, 3)),
    ]
    for i, p in enumerate(probes):
        outs = []
        for g in (real, stub):
            try:
                v = p(g)
                outs.append(('ok', np.shape(v)))
            except Exception as e:  # noqa: BLE001
                outs.append(('raise', type(e).__name__))
        if outs[0] != outs[1]:
            raise AssertionError(f'ScriptedRng differs from numpy Generator on probe {i}: {outs}')
    return len(probes)
